// Bounded stand-in (native execution of the real code, NOT a proof) for C20: the polynomial arithmetic of
// math/src/polynom/mod.rs and the batch utilities of math/src/utils/mod.rs against their defining identities,
// checked with an independent naive reference written in this file (schoolbook product, evaluation by
// explicit powers). The bodies are iterator / closure chains over generic field elements: outside what the
// installed Verus accepts, and equalities of field products are beyond CBMC (DESIGN.md 9.2).
// Bound: polynomials of 0..9 coefficients (zero, one, minus one and seeded coefficients, with zero leading and
// trailing coefficients), all divisor sizes, point sets of 1..9 points, vectors of lengths 0..40 and around
// the 1024-element batching threshold with zeros at every position (short vectors) / seeded positions (long
// ones); the three base fields, their quadratic extensions and the cubic extensions of f64 and f62.
use std::panic::{catch_unwind, AssertUnwindSafe};

use winter_math as math;
use math::{
    fields::{f128, f62, f64, CubeExtension, QuadExtension},
    polynom, FieldElement, StarkField,
};
use utils::Deserializable;

fn seed() -> u64 {
    std::env::var("VERIF_SEED").ok().and_then(|s| s.parse().ok()).unwrap_or(0)
}

struct Rng(u64);
impl Rng {
    fn next(&mut self) -> u64 {
        self.0 ^= self.0 << 13;
        self.0 ^= self.0 >> 7;
        self.0 ^= self.0 << 17;
        self.0
    }
}

fn fail(msg: String) -> ! {
    println!("NB-VIOLATION {msg}");
    panic!("NB-VIOLATION {msg}");
}

/// an element: 0, 1, -1 or one with seeded 31-bit coefficients in every coordinate of the extension
fn elem<E: FieldElement>(rng: &mut Rng) -> E {
    match rng.next() % 8 {
        0 => E::ZERO,
        1 => E::ONE,
        2 => -E::ONE,
        _ => {
            let mut bytes = vec![0u8; E::ELEMENT_BYTES];
            let step = <E::BaseField as FieldElement>::ELEMENT_BYTES;
            for chunk in bytes.chunks_mut(step) {
                chunk[..4].copy_from_slice(&(((rng.next() >> 33) as u32) >> 1).to_le_bytes());
            }
            E::read_from_bytes(&bytes).unwrap()
        },
    }
}

fn nonzero<E: FieldElement>(rng: &mut Rng) -> E {
    loop {
        let e = elem::<E>(rng);
        if e != E::ZERO {
            return e;
        }
    }
}

fn poly<E: FieldElement>(len: usize, rng: &mut Rng) -> Vec<E> {
    let mut p: Vec<E> = (0..len).map(|_| elem::<E>(rng)).collect();
    // zero leading / trailing coefficients now and then
    if len > 0 && rng.next() % 4 == 0 {
        p[len - 1] = E::ZERO;
    }
    if len > 0 && rng.next() % 4 == 0 {
        p[0] = E::ZERO;
    }
    p
}

// ---- naive reference ------------------------------------------------------------------------------
fn r_eval<E: FieldElement>(p: &[E], x: E) -> E {
    let mut acc = E::ZERO;
    let mut pw = E::ONE;
    for &c in p {
        acc += c * pw;
        pw *= x;
    }
    acc
}

fn r_mul<E: FieldElement>(a: &[E], b: &[E]) -> Vec<E> {
    if a.is_empty() || b.is_empty() {
        return vec![];
    }
    let mut out = vec![E::ZERO; a.len() + b.len() - 1];
    for i in 0..a.len() {
        for j in 0..b.len() {
            out[i + j] += a[i] * b[j];
        }
    }
    out
}

fn r_sub<E: FieldElement>(a: &[E], b: &[E]) -> Vec<E> {
    let n = a.len().max(b.len());
    (0..n).map(|i| a.get(i).copied().unwrap_or(E::ZERO) - b.get(i).copied().unwrap_or(E::ZERO)).collect()
}

/// degree with the convention -1 for the zero polynomial
fn r_deg<E: FieldElement>(p: &[E]) -> isize {
    for i in (0..p.len()).rev() {
        if p[i] != E::ZERO {
            return i as isize;
        }
    }
    -1
}

fn same_poly<E: FieldElement>(a: &[E], b: &[E]) -> bool {
    r_deg(&r_sub(a, b)) == -1
}

fn guarded<T>(what: &str, field: &str, f: impl FnOnce() -> T) -> T {
    match catch_unwind(AssertUnwindSafe(f)) {
        Ok(v) => v,
        Err(_) => fail(format!("{what} panicked on an input inside its documented domain: field={field}")),
    }
}

fn polynomials<E: FieldElement>(field: &str, rng: &mut Rng, cases: &mut u64) {
    for la in 0..10usize {
        for lb in 0..10usize {
            for _ in 0..6 {
                let (a, b) = (poly::<E>(la, rng), poly::<E>(lb, rng));
                let x = elem::<E>(rng);
                *cases += 1;
                let what = |op: &str| format!("{op}: field={field} a={a:?} b={b:?}");
                // add / sub / mul / mul_by_scalar against evaluation and against the schoolbook product
                let s = guarded("polynom::add", field, || polynom::add(&a, &b));
                if s.len() != la.max(lb) || r_eval(&s, x) != r_eval(&a, x) + r_eval(&b, x) {
                    fail(what("add(a, b) is not the coefficient-wise sum of length max(|a|, |b|)"));
                }
                let d = guarded("polynom::sub", field, || polynom::sub(&a, &b));
                if d.len() != la.max(lb) || !same_poly(&d, &r_sub(&a, &b)) {
                    fail(what("sub(a, b) is not the coefficient-wise difference"));
                }
                if la > 0 && lb > 0 {
                    let m = guarded("polynom::mul", field, || polynom::mul(&a, &b));
                    if m != r_mul(&a, &b) {
                        fail(what("mul(a, b) is not the schoolbook product"));
                    }
                }
                let k = elem::<E>(rng);
                let sc = guarded("polynom::mul_by_scalar", field, || polynom::mul_by_scalar(&a, k));
                if sc.len() != la || sc.iter().zip(a.iter()).any(|(&r, &c)| r != c * k) {
                    fail(what("mul_by_scalar(a, k) is not k * a"));
                }
                // eval / eval_many against explicit powers
                if polynom::eval(&a, x) != r_eval(&a, x) {
                    fail(what("eval(a, x) differs from the sum of a_i * x^i"));
                }
                let xs: Vec<E> = (0..3).map(|_| elem::<E>(rng)).collect();
                if polynom::eval_many(&a, &xs) != xs.iter().map(|&x| r_eval(&a, x)).collect::<Vec<_>>() {
                    fail(what("eval_many differs from point-wise evaluation"));
                }
                // degree_of / remove_leading_zeros
                if la > 0 {
                    let dg = r_deg(&a).max(0) as usize;
                    if polynom::degree_of(&a) != dg {
                        fail(what("degree_of(a) is not the index of the last non-zero coefficient"));
                    }
                    let t = polynom::remove_leading_zeros(&a);
                    if t.len() != (r_deg(&a) + 1) as usize || t[..] != a[..t.len()] {
                        fail(what("remove_leading_zeros(a) is not a without its zero high-order coefficients"));
                    }
                }
                // long division: a = q * b + r with deg r < deg b
                if r_deg(&b) >= 0 && r_deg(&a) >= r_deg(&b) {
                    let q = guarded("polynom::div", field, || polynom::div(&a, &b));
                    let r = r_sub(&a, &r_mul(&q, &b));
                    if r_deg(&r) >= r_deg(&b) {
                        fail(what("div(a, b): a - q * b has a degree >= deg b"));
                    }
                }
            }
        }
    }
}

/// long division with a prescribed quotient (zeros at chosen places) and remainder: div(q * b + r, b) == q
fn constructed_divisions<E: FieldElement>(field: &str, rng: &mut Rng, cases: &mut u64) {
    for lq in 1..8usize {
        for lb in 1..6usize {
            for zero_mask in 0..(1u32 << (lq - 1).min(5)) {
                let mut q = poly::<E>(lq, rng);
                q[lq - 1] = nonzero::<E>(rng);
                for i in 0..(lq - 1).min(5) {
                    if zero_mask & (1 << i) != 0 {
                        q[i] = E::ZERO;
                    }
                }
                let mut b = poly::<E>(lb, rng);
                b[lb - 1] = nonzero::<E>(rng);
                let mut r = poly::<E>(lb - 1, rng);
                r.resize(lq + lb - 1, E::ZERO);
                let a: Vec<E> = r_mul(&q, &b).iter().zip(r.iter()).map(|(&x, &y)| x + y).collect();
                *cases += 1;
                let got = guarded("polynom::div", field, || polynom::div(&a, &b));
                if !same_poly(&got, &q) {
                    fail(format!("div(q * b + r, b) != q for a quotient with zero coefficients: field={field} q={q:?} b={b:?} r={:?}", &r[..lb - 1]));
                }
            }
        }
    }
}

fn divisions<E: FieldElement>(field: &str, rng: &mut Rng, cases: &mut u64) {
    // synthetic division by x^a - b: p = q * (x^a - b) + r with deg r < a; q has p.len() coefficients
    for lp in 2..12usize {
        for a in 1..lp {
            for bsel in 0..4 {
                let p = poly::<E>(lp, rng);
                let b = match bsel {
                    0 => E::ONE,
                    1 => -E::ONE,
                    _ => nonzero::<E>(rng),
                };
                *cases += 1;
                let what = |op: &str| format!("{op}: field={field} p={p:?} a={a} b={b:?}");
                let q = guarded("polynom::syn_div", field, || polynom::syn_div(&p, a, b));
                let mut divisor = vec![E::ZERO; a + 1];
                divisor[0] = -b;
                divisor[a] = E::ONE;
                let r = r_sub(&p, &r_mul(&q, &divisor));
                if q.len() != p.len() || r_deg(&r) >= a as isize {
                    fail(what("syn_div(p, a, b): p - q * (x^a - b) has degree >= a (or q has the wrong length)"));
                }
                let mut inplace = p.clone();
                guarded("polynom::syn_div_in_place", field, || polynom::syn_div_in_place(&mut inplace, a, b));
                if inplace != q {
                    fail(what("syn_div_in_place disagrees with syn_div"));
                }
            }
        }
        // division by a product of linear factors given by their roots
        for nroots in 1..lp.min(5) {
            let roots: Vec<E> = (0..nroots).map(|_| elem::<E>(rng)).collect();
            let quotient = poly::<E>(lp - nroots, rng);
            let divisor = guarded("polynom::poly_from_roots", field, || polynom::poly_from_roots(&roots));
            *cases += 1;
            let what = |op: &str| format!("{op}: field={field} roots={roots:?} quotient={quotient:?}");
            // poly_from_roots: monic, degree = number of roots, vanishes on the roots
            if divisor.len() != nroots + 1 || divisor[nroots] != E::ONE || roots.iter().any(|&x| r_eval(&divisor, x) != E::ZERO) {
                fail(what("poly_from_roots is not the monic polynomial of degree n vanishing on the roots"));
            }
            let mut expected = vec![E::ONE];
            for &x in roots.iter() {
                expected = r_mul(&expected, &[-x, E::ONE]);
            }
            if divisor != expected {
                fail(what("poly_from_roots differs from the product of (x - x_i)"));
            }
            // exact division gives back the quotient; a remainder is ignored
            let product = r_mul(&quotient, &divisor);
            let mut p = product.clone();
            guarded("polynom::syn_div_roots_in_place", field, || polynom::syn_div_roots_in_place(&mut p, &roots));
            if !same_poly(&p, &quotient) {
                fail(what("syn_div_roots_in_place(q * prod(x - x_i), roots) != q"));
            }
            let mut noisy = product.clone();
            noisy[0] += E::ONE;
            let mut p2 = noisy.clone();
            guarded("polynom::syn_div_roots_in_place", field, || polynom::syn_div_roots_in_place(&mut p2, &roots));
            let q2: Vec<E> = p2.clone();
            let r = r_sub(&noisy, &r_mul(&polynom::remove_leading_zeros(&q2), &divisor));
            if r_deg(&r) >= nroots as isize {
                fail(what("syn_div_roots_in_place: p - q * prod(x - x_i) has degree >= number of roots"));
            }
        }
    }
}

fn interpolation<E: FieldElement>(field: &str, rng: &mut Rng, cases: &mut u64) {
    for n in 1..10usize {
        for _ in 0..8 {
            // distinct points
            let mut xs: Vec<E> = Vec::new();
            while xs.len() < n {
                let x = elem::<E>(rng);
                if !xs.contains(&x) {
                    xs.push(x);
                }
            }
            let ys: Vec<E> = (0..n).map(|_| elem::<E>(rng)).collect();
            *cases += 1;
            let what = |op: &str| format!("{op}: field={field} xs={xs:?} ys={ys:?}");
            for strip in [false, true] {
                let p = guarded("polynom::interpolate", field, || polynom::interpolate(&xs, &ys, strip));
                if p.len() > n || (!strip && p.len() != n) || xs.iter().zip(ys.iter()).any(|(&x, &y)| r_eval(&p, x) != y) {
                    fail(what("interpolate(xs, ys) is not the polynomial of degree < n through the points"));
                }
                if strip && !p.is_empty() && p[p.len() - 1] == E::ZERO && p.len() > 1 {
                    fail(what("interpolate(.., remove_leading_zeros = true) kept a zero leading coefficient"));
                }
            }
        }
    }
    // batched interpolation over batches of 4 points
    for nb in 1..5usize {
        let mut xb: Vec<[E; 4]> = Vec::new();
        let mut yb: Vec<[E; 4]> = Vec::new();
        for _ in 0..nb {
            let mut xs: Vec<E> = Vec::new();
            while xs.len() < 4 {
                let x = elem::<E>(rng);
                if !xs.contains(&x) {
                    xs.push(x);
                }
            }
            xb.push([xs[0], xs[1], xs[2], xs[3]]);
            yb.push([elem::<E>(rng), elem::<E>(rng), elem::<E>(rng), elem::<E>(rng)]);
        }
        *cases += 1;
        let ps = guarded("polynom::interpolate_batch", field, || polynom::interpolate_batch(&xb, &yb));
        for k in 0..nb {
            for i in 0..4 {
                if ps.len() != nb || r_eval(&ps[k], xb[k][i]) != yb[k][i] {
                    fail(format!("interpolate_batch: polynomial {k} does not pass through its points: field={field} xs={:?} ys={:?}", xb[k], yb[k]));
                }
            }
        }
    }
}

fn batch_utilities<E: FieldElement>(field: &str, rng: &mut Rng, cases: &mut u64) {
    // power series
    for n in [0usize, 1, 2, 7, 33] {
        let (b, s) = (elem::<E>(rng), elem::<E>(rng));
        *cases += 1;
        let ps = guarded("get_power_series", field, || math::get_power_series(b, n));
        let pso = guarded("get_power_series_with_offset", field, || math::get_power_series_with_offset(b, s, n));
        let mut pw = E::ONE;
        for i in 0..n {
            if ps.len() != n || pso.len() != n || ps[i] != pw || pso[i] != s * pw {
                fail(format!("get_power_series(b, n)[{i}] != b^{i} (or the offset variant != s * b^{i}): field={field} b={b:?} s={s:?} n={n}"));
            }
            pw *= b;
        }
    }
    // in-place accumulation
    for n in [0usize, 1, 5, 64] {
        let (a, b) = (poly::<E>(n, rng), poly::<E>(n, rng));
        let c = elem::<E>(rng);
        *cases += 1;
        let mut x = a.clone();
        guarded("add_in_place", field, || math::add_in_place(&mut x, &b));
        let mut y = a.clone();
        guarded("mul_acc", field, || math::mul_acc::<E, E>(&mut y, &b, c));
        for i in 0..n {
            if x[i] != a[i] + b[i] || y[i] != a[i] + b[i] * c {
                fail(format!("add_in_place / mul_acc: element {i} is not a[i] + b[i] (resp. a[i] + b[i] * c): field={field} n={n}"));
            }
        }
    }
    // batch inversion: zeros preserved, everything else inverted; a zero at every position of short vectors
    let check = |v: &[E], cases: &mut u64| {
        *cases += 1;
        let inv = guarded("batch_inversion", field, || math::batch_inversion(v));
        if inv.len() != v.len() {
            fail(format!("batch_inversion changes the length: field={field} n={}", v.len()));
        }
        for i in 0..v.len() {
            let ok = if v[i] == E::ZERO { inv[i] == E::ZERO } else { v[i] * inv[i] == E::ONE };
            if !ok {
                fail(format!("batch_inversion: element {i} of {} is neither 0 (for 0) nor the inverse: field={field} value={:?} result={:?}", v.len(), v[i], inv[i]));
            }
        }
    };
    for n in 0..41usize {
        let base: Vec<E> = (0..n).map(|_| nonzero::<E>(rng)).collect();
        check(&base, cases);
        for z in 0..n {
            let mut v = base.clone();
            v[z] = E::ZERO;
            check(&v, cases);
            if z + 1 < n {
                v[z + 1] = E::ZERO;
                check(&v, cases);
            }
        }
        check(&vec![E::ZERO; n], cases);
    }
    for n in [1023usize, 1024, 1025, 2048, 2049] {
        let mut v: Vec<E> = (0..n).map(|_| nonzero::<E>(rng)).collect();
        check(&v, cases);
        for _ in 0..5 {
            let z = (rng.next() % n as u64) as usize;
            v[z] = E::ZERO;
        }
        v[0] = E::ZERO;
        v[n - 1] = E::ZERO;
        check(&v, cases);
    }
}

fn field<E: FieldElement>(name: &str, rng: &mut Rng, cases: &mut u64) {
    polynomials::<E>(name, rng, cases);
    divisions::<E>(name, rng, cases);
    constructed_divisions::<E>(name, rng, cases);
    interpolation::<E>(name, rng, cases);
    batch_utilities::<E>(name, rng, cases);
}

#[test]
fn polynomial_identities_bounded() {
    let mut rng = Rng(0x2545F4914F6CDD1D ^ seed().wrapping_mul(0x9E3779B97F4A7C15) | 1);
    let mut cases = 0u64;
    field::<f64::BaseElement>("f64", &mut rng, &mut cases);
    field::<f128::BaseElement>("f128", &mut rng, &mut cases);
    field::<f62::BaseElement>("f62", &mut rng, &mut cases);
    field::<QuadExtension<f64::BaseElement>>("f64 quadratic", &mut rng, &mut cases);
    field::<CubeExtension<f64::BaseElement>>("f64 cubic", &mut rng, &mut cases);
    field::<QuadExtension<f128::BaseElement>>("f128 quadratic", &mut rng, &mut cases);
    field::<QuadExtension<f62::BaseElement>>("f62 quadratic", &mut rng, &mut cases);
    field::<CubeExtension<f62::BaseElement>>("f62 cubic", &mut rng, &mut cases);
    let _ = <f64::BaseElement as StarkField>::MODULUS;
    println!("NB-RESULT name=polynomial_identities_bounded cases={cases}");
}
