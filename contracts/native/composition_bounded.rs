// Bounded stand-in (native execution of the real code, NOT a proof) for C17: the constraint composition
// polynomial produced by the real DefaultConstraintEvaluator / CompositionPoly equals, at every point of the
// constraint evaluation domain and at seeded points outside it, the random linear combination
//     sum_k alpha_k * C_k(frame(x), periodic(x)) / Z_t(x)  +  sum_j beta_j * (T_col_j(x) - V_j(x)) / Z_j(x)
// computed directly in this file from the trace polynomials, the AIR's constraint formulas, the documented
// divisors (Z_t = (x^n - 1) / (x - g^(n-1)); Z_j = x^m - g^(first * m) for m asserted steps) and value
// polynomials V_j obtained by a naive interpolation. The evaluator / periodic table / boundary groups are
// generic over a user Air with iterator-heavy bodies: out of both verifiers' reach (DESIGN.md 4.C17).
// The verifier's side of the statement (its evaluation from an opened frame agrees) is what the pipeline
// stand-ins observe when honest proofs verify (the OOD consistency check).
// Bound: one AIR with 3 columns, 3 transition constraints using periodic columns of cycle lengths 2, 4 and 8,
// single / periodic / sequence assertions with non-zero first steps (sequence of 4 and of n/2 values: below
// and above the boundary evaluator's small-polynomial threshold); trace lengths 16, 64, 512; LDE blowup 8 and
// 16 (constraint evaluation blowup 4); f128 and f64 with no / quadratic / cubic (f64) extension.
use std::panic::{catch_unwind, AssertUnwindSafe};

use air::{
    Air, AirContext, Assertion, ConstraintCompositionCoefficients, EvaluationFrame, FieldExtension, ProofOptions, TraceInfo,
    TransitionConstraintDegree,
};
use math::{
    fields::{f128, f64, CubeExtension, QuadExtension},
    FieldElement, StarkField, ToElements,
};
use utils::Deserializable;
use winter_prover::{
    matrix::ColMatrix, CompositionPoly, ConstraintEvaluator, DefaultConstraintEvaluator, DefaultTraceLde, StarkDomain,
};

/// what Air::BaseField requires
trait Base: StarkField + math::ExtensibleField<2> + math::ExtensibleField<3> {}
impl<T: StarkField + math::ExtensibleField<2> + math::ExtensibleField<3>> Base for T {}

fn seed() -> u64 {
    std::env::var("VERIF_SEED").ok().and_then(|s| s.parse().ok()).unwrap_or(0)
}

struct Rng(u64);
impl Rng {
    fn next(&mut self) -> u64 {
        self.0 ^= self.0 << 13;
        self.0 ^= self.0 >> 7;
        self.0 ^= self.0 << 17;
        self.0
    }
}

fn fail(msg: String) -> ! {
    println!("NB-VIOLATION {msg}");
    panic!("NB-VIOLATION {msg}");
}

fn elem<E: FieldElement>(rng: &mut Rng) -> E {
    let mut bytes = vec![0u8; E::ELEMENT_BYTES];
    let step = <E::BaseField as FieldElement>::ELEMENT_BYTES;
    for chunk in bytes.chunks_mut(step) {
        chunk[..4].copy_from_slice(&((((rng.next() >> 33) as u32) >> 1) | 1).to_le_bytes());
    }
    E::read_from_bytes(&bytes).unwrap()
}

// THE COMPUTATION
// =================================================================================================
// periodic columns: k0 (cycle 2), k1 (cycle 8), k2 (cycle 4, values multiplying to one)
fn k0<B: Base>() -> Vec<B> {
    vec![B::from(1u32), B::from(3u32)]
}
fn k1<B: Base>() -> Vec<B> {
    (0..8u32).map(|i| B::from(5 + 7 * i)).collect()
}
fn k2<B: Base>() -> Vec<B> {
    vec![B::from(2u32), B::from(3u32), B::from(2u32).inv(), B::from(3u32).inv()]
}

/// c0' = c0 * k0;  c1' = c1 * c0 * k1;  c2' = c2 * k2  (the k2 cycle multiplies to one: c2 has period 4)
fn next_row<B: Base>(row: [B; 3], step: usize) -> [B; 3] {
    [row[0] * k0::<B>()[step % 2], row[1] * row[0] * k1::<B>()[step % 8], row[2] * k2::<B>()[step % 4]]
}

fn build_trace<B: Base>(n: usize, start: [B; 3]) -> Vec<Vec<B>> {
    let mut cols = vec![Vec::with_capacity(n), Vec::with_capacity(n), Vec::with_capacity(n)];
    let mut row = start;
    for step in 0..n {
        for c in 0..3 {
            cols[c].push(row[c]);
        }
        row = next_row(row, step);
    }
    cols
}

#[derive(Clone)]
struct Spec<B: Base> {
    col: usize,
    first: usize,
    stride: usize, // 0: single
    values: Vec<B>,
    periodic: bool,
}

fn assertions_for<B: Base>(n: usize, cols: &[Vec<B>]) -> Vec<Spec<B>> {
    vec![
        Spec { col: 0, first: 0, stride: 0, values: vec![cols[0][0]], periodic: false },
        Spec { col: 1, first: n - 1, stride: 0, values: vec![cols[1][n - 1]], periodic: false },
        // c2 has period 4: asserted at steps 1, 5, 9, ...
        Spec { col: 2, first: 1, stride: 4, values: vec![cols[2][1]], periodic: true },
        // a short sequence (4 values) with a non-zero first step
        Spec { col: 1, first: 2, stride: n / 4, values: (0..4).map(|k| cols[1][2 + k * n / 4]).collect(), periodic: false },
        // a long sequence (n / 2 values) with a non-zero first step
        Spec { col: 0, first: 1, stride: 2, values: (0..n / 2).map(|k| cols[0][1 + 2 * k]).collect(), periodic: false },
    ]
}

struct Pub<B: Base>(Vec<Spec<B>>);
impl<B: Base> ToElements<B> for Pub<B> {
    fn to_elements(&self) -> Vec<B> {
        vec![]
    }
}

thread_local! {
    /// number of transition exemptions of the AIR under test (1 = the default)
    static EXEMPTIONS: std::cell::Cell<usize> = const { std::cell::Cell::new(1) };
}

struct TestAir<B: Base> {
    context: AirContext<B>,
    specs: Vec<Spec<B>>,
}

impl<B: Base> Air for TestAir<B> {
    type BaseField = B;
    type PublicInputs = Pub<B>;
    type GkrProof = ();
    type GkrVerifier = ();

    fn new(trace_info: TraceInfo, pub_inputs: Pub<B>, options: ProofOptions) -> Self {
        let degrees = vec![
            TransitionConstraintDegree::with_cycles(1, vec![2]),
            TransitionConstraintDegree::with_cycles(2, vec![8]),
            TransitionConstraintDegree::with_cycles(1, vec![4]),
        ];
        let k = EXEMPTIONS.with(|e| e.get());
        let context = AirContext::new(trace_info, degrees, pub_inputs.0.len(), options);
        let context = if k == 1 { context } else { context.set_num_transition_exemptions(k) };
        Self { context, specs: pub_inputs.0 }
    }

    fn context(&self) -> &AirContext<B> {
        &self.context
    }

    fn get_periodic_column_values(&self) -> Vec<Vec<B>> {
        vec![k0::<B>(), k1::<B>(), k2::<B>()]
    }

    fn evaluate_transition<E: FieldElement<BaseField = B>>(&self, frame: &EvaluationFrame<E>, periodic_values: &[E], result: &mut [E]) {
        let (cur, next) = (frame.current(), frame.next());
        result[0] = next[0] - cur[0] * periodic_values[0];
        result[1] = next[1] - cur[1] * cur[0] * periodic_values[1];
        result[2] = next[2] - cur[2] * periodic_values[2];
    }

    fn get_assertions(&self) -> Vec<Assertion<B>> {
        self.specs
            .iter()
            .map(|s| match (s.stride, s.periodic) {
                (0, _) => Assertion::single(s.col, s.first, s.values[0]),
                (_, true) => Assertion::periodic(s.col, s.first, s.stride, s.values[0]),
                _ => Assertion::sequence(s.col, s.first, s.stride, s.values.clone()),
            })
            .collect()
    }
}

// DIRECT DEFINITION
// =================================================================================================
fn eval_poly<B: Base, E: FieldElement<BaseField = B>>(p: &[B], x: E) -> E {
    let mut acc = E::ZERO;
    let mut pw = E::ONE;
    for &c in p {
        acc += pw.mul_base(c);
        pw *= x;
    }
    acc
}

/// value at x of the polynomial of degree < m that takes values[k] at h^k * shift (k = 0..m), by Lagrange's formula
fn lagrange_at<B: Base, E: FieldElement<BaseField = B>>(values: &[B], h: B, shift: B, x: E) -> E {
    let m = values.len();
    let nodes: Vec<B> = (0..m).map(|k| shift * h.exp((k as u64).into())).collect();
    let mut acc = E::ZERO;
    for k in 0..m {
        let mut num = E::ONE;
        let mut den = B::ONE;
        for j in 0..m {
            if j != k {
                num *= x - E::from(nodes[j]);
                den *= nodes[k] - nodes[j];
            }
        }
        acc += num.mul_base(values[k] * den.inv());
    }
    acc
}

struct Instance<B: Base, E: FieldElement<BaseField = B>> {
    n: usize,
    g: B,
    polys: Vec<Vec<B>>,
    specs_sorted: Vec<Spec<B>>,
    alpha: Vec<E>,
    beta: Vec<E>,
    exemptions: usize,
}

impl<B: Base, E: FieldElement<BaseField = B>> Instance<B, E> {
    /// the composition value at x by its definition
    fn composition_at(&self, x: E) -> E {
        let n = self.n;
        let g = E::from(self.g);
        let t: Vec<E> = self.polys.iter().map(|p| eval_poly::<B, E>(p, x)).collect();
        let tn: Vec<E> = self.polys.iter().map(|p| eval_poly::<B, E>(p, x * g)).collect();
        // periodic column of cycle c at x: the polynomial of degree < c in y = x^(n / c) through the cycle values
        let periodic = |vals: Vec<B>| -> E {
            let c = vals.len();
            let y = x.exp(((n / c) as u64).into());
            lagrange_at::<B, E>(&vals, B::get_root_of_unity(c.ilog2()), B::ONE, y)
        };
        let (p0, p1, p2) = (periodic(k0::<B>()), periodic(k1::<B>()), periodic(k2::<B>()));
        let c = [tn[0] - t[0] * p0, tn[1] - t[1] * t[0] * p1, tn[2] - t[2] * p2];
        // transition divisor: (x^n - 1) over the product of (x - g^step) for the last k (exempt) steps
        let mut exempt = E::ONE;
        for step in (n - self.exemptions)..n {
            exempt *= x - E::from(self.g.exp((step as u64).into()));
        }
        let z_t = (x.exp((n as u64).into()) - E::ONE) / exempt;
        let mut acc = (self.alpha[0] * c[0] + self.alpha[1] * c[1] + self.alpha[2] * c[2]) / z_t;
        for (j, s) in self.specs_sorted.iter().enumerate() {
            let m = if s.stride == 0 { 1 } else { n / s.stride };
            let z_j = x.exp((m as u64).into()) - E::from(self.g.exp(((s.first * m) as u64).into()));
            let v = if s.values.len() == 1 {
                E::from(s.values[0])
            } else {
                // values at g^(first + k * stride): nodes h^k * shift with h = g^stride, shift = g^first
                lagrange_at::<B, E>(&s.values, self.g.exp((s.stride as u64).into()), self.g.exp((s.first as u64).into()), x)
            };
            acc += self.beta[j] * (t[s.col] - v) / z_j;
        }
        acc
    }
}

fn run<B: Base, E: FieldElement<BaseField = B>>(field: &str, ext: FieldExtension, rng: &mut Rng, cases: &mut u64) {
    // 1 exemption (the default) on every trace length; 2, 3 and 4 exemptions (more than the highest constraint degree, which
    // changes the number of composition columns) on the two smaller ones
    for (n, k) in [(16usize, 1usize), (64, 1), (512, 1), (16, 2), (16, 3), (64, 3), (64, 4)] {
        EXEMPTIONS.with(|e| e.set(k));
        for lde_blowup in [8usize, 16] {
            let ctx = format!("field={field} trace_len={n} lde_blowup={lde_blowup} exemptions={k}");
            let start = [B::from(((rng.next() >> 40) as u32) | 1), B::from(((rng.next() >> 40) as u32) | 1), B::from(((rng.next() >> 40) as u32) | 1)];
            let cols = build_trace::<B>(n, start);
            let specs = assertions_for::<B>(n, &cols);
            let options = ProofOptions::new(8, lde_blowup, 0, ext, 4, 7);
            let air = TestAir::<B>::new(TraceInfo::new(3, n), Pub(specs.clone()), options);
            let domain = StarkDomain::new(&air);
            let main = ColMatrix::new(cols.clone());
            let (trace_lde, _polys) = DefaultTraceLde::<E, crypto::hashers::Blake3_256<B>>::new(air.trace_info(), &main, &domain);
            // coefficients: seeded, all different
            let alpha: Vec<E> = (0..3).map(|_| elem::<E>(rng)).collect();
            let beta: Vec<E> = (0..specs.len()).map(|_| elem::<E>(rng)).collect();
            let coefficients = ConstraintCompositionCoefficients { transition: alpha.clone(), boundary: beta.clone(), lagrange: None };
            let evaluator = DefaultConstraintEvaluator::<TestAir<B>, E>::new(&air, None, coefficients);
            let trace = match catch_unwind(AssertUnwindSafe(|| evaluator.evaluate(&trace_lde, &domain))) {
                Ok(t) => t,
                Err(_) => fail(format!("the constraint evaluator panicked on a valid execution: {ctx}")),
            };
            // the i-th boundary coefficient belongs to the i-th assertion in the documented order
            // (stride, first step, column)
            let mut sorted = specs.clone();
            sorted.sort_by_key(|s| (s.stride, s.first, s.col));
            let inst = Instance::<B, E> { exemptions: EXEMPTIONS.with(|e| e.get()), n, g: B::get_root_of_unity(n.ilog2()), polys: main.interpolate_columns().into_columns(), specs_sorted: sorted, alpha, beta };
            let evaluations = trace.into_inner();
            let ce_size = evaluations.len();
            if ce_size != domain.ce_domain_size() {
                fail(format!("composition trace has {ce_size} rows, the constraint evaluation domain has {}: {ctx}", domain.ce_domain_size()));
            }
            let ce_gen = B::get_root_of_unity(ce_size.ilog2());
            // every point of the constraint evaluation domain for the small traces, a seeded eighth for the large one
            let stride = if n > 64 { 8 } else { 1 };
            let mut i = (rng.next() as usize) % stride;
            while i < ce_size {
                let x = E::from(domain.offset() * ce_gen.exp((i as u64).into()));
                *cases += 1;
                if evaluations[i] != inst.composition_at(x) {
                    fail(format!("the composition polynomial differs from its definition at point {i} of the constraint evaluation domain: {ctx}"));
                }
                i += stride;
            }
            // the committed columns H_i: sum_i z^(i * n) * H_i(z) equals the definition at seeded points z
            let num_cols = air.context().num_constraint_composition_columns();
            let poly = CompositionPoly::new(winter_prover::CompositionPolyTrace::new(evaluations), &domain, num_cols);
            for _ in 0..4 {
                let z = elem::<E>(rng);
                let cols_at_z = poly.evaluate_at(z);
                let zn = z.exp((n as u64).into());
                let mut acc = E::ZERO;
                let mut pw = E::ONE;
                for v in cols_at_z.iter() {
                    acc += *v * pw;
                    pw *= zn;
                }
                *cases += 1;
                if cols_at_z.len() != num_cols || acc != inst.composition_at(z) {
                    fail(format!("the committed composition columns do not recombine to the definition at an out-of-domain point: {ctx}"));
                }
            }
        }
    }
}

#[test]
fn composition_polynomial_bounded() {
    let mut rng = Rng(0xC2B2AE3D27D4EB4F ^ seed().wrapping_mul(0x165667B19E3779F9) | 1);
    let mut cases = 0u64;
    run::<f128::BaseElement, f128::BaseElement>("f128", FieldExtension::None, &mut rng, &mut cases);
    run::<f128::BaseElement, QuadExtension<f128::BaseElement>>("f128 quadratic", FieldExtension::Quadratic, &mut rng, &mut cases);
    run::<f64::BaseElement, f64::BaseElement>("f64", FieldExtension::None, &mut rng, &mut cases);
    run::<f64::BaseElement, QuadExtension<f64::BaseElement>>("f64 quadratic", FieldExtension::Quadratic, &mut rng, &mut cases);
    run::<f64::BaseElement, CubeExtension<f64::BaseElement>>("f64 cubic", FieldExtension::Cubic, &mut rng, &mut cases);
    println!("NB-RESULT name=composition_polynomial_bounded cases={cases}");
}
