// Bounded stand-in (native execution of the real code, NOT a proof) for the parts of C15 / C05 that are
// statements about whole FRI runs over field values: honest proofs are accepted (also after
// serialization, with repeated / colliding query positions, with a reused prover instance), evaluations of
// polynomials above the claimed bound are refused, and a tampered layer value is refused. The folding
// identity itself and these end-to-end statements are algebraic facts over symbolic field values, which
// neither CBMC (limit about 20 symbolic bits, DESIGN.md section 1) nor Verus (iterator/closure bodies) reaches.
// Bound: the parameter grid below over the 128-bit and the 64-bit field, Blake3_256; seeded polynomials.
use std::panic::{catch_unwind, AssertUnwindSafe};

use crypto::{hashers::Blake3_256, DefaultRandomCoin, Hasher, RandomCoin};
use math::{fft, fields::f128, fields::f64, FieldElement, StarkField};
use utils::{ByteReader, Deserializable, Serializable, SliceReader};
use winter_fri::{DefaultProverChannel, DefaultVerifierChannel, FriOptions, FriProof, FriProver, FriVerifier, VerifierError};

fn seed() -> u64 {
    std::env::var("VERIF_SEED").ok().and_then(|s| s.parse().ok()).unwrap_or(0)
}

struct Rng(u64);
impl Rng {
    fn next(&mut self) -> u64 {
        self.0 ^= self.0 << 13;
        self.0 ^= self.0 >> 7;
        self.0 ^= self.0 << 17;
        self.0
    }
}

fn fail(msg: String) -> ! {
    println!("NB-VIOLATION {msg}");
    panic!("NB-VIOLATION {msg}");
}

/// evaluations over the LDE domain (no offset: the FRI crate's own tests use the plain domain) of a
/// polynomial with `num_coeffs` seeded non-zero coefficients
fn evaluations<B: StarkField, E: FieldElement<BaseField = B>>(num_coeffs: usize, domain_size: usize, rng: &mut Rng) -> Vec<E> {
    // coefficients with a non-trivial extension part where the field has one
    let mut p: Vec<E> = (0..num_coeffs)
        .map(|_| {
            let mut bytes = vec![0u8; E::ELEMENT_BYTES];
            for chunk in bytes.chunks_mut(B::ELEMENT_BYTES) {
                chunk[..4].copy_from_slice(&(((rng.next() >> 33) as u32) | 1).to_le_bytes());
            }
            E::read_from_bytes(&bytes).unwrap()
        })
        .collect();
    p.resize(domain_size, E::ZERO);
    let twiddles = fft::get_twiddles::<B>(domain_size);
    fft::evaluate_poly(&mut p, &twiddles);
    p
}

type Outcome = Result<(), VerifierError>;

thread_local! {
    /// when set to Some(k): the verifier is handed the claimed evaluations with the k-th queried one changed
    static CORRUPT_CLAIM: std::cell::Cell<Option<usize>> = const { std::cell::Cell::new(None) };
    /// when set: these query positions are used instead of the ones drawn from the channel
    static FORCED_POSITIONS: std::cell::RefCell<Option<Vec<usize>>> = const { std::cell::RefCell::new(None) };
}

#[allow(clippy::too_many_arguments)]
fn run<B, E, H>(
    prover: &mut FriProver<B, E, DefaultProverChannel<E, H, DefaultRandomCoin<H>>, H>,
    options: &FriOptions,
    evals: &[E],
    max_degree: usize,
    num_queries: usize,
    tamper: Option<usize>,
) -> Outcome
where
    B: StarkField,
    E: FieldElement<BaseField = B>,
    H: crypto::ElementHasher<BaseField = B>,
{
    let domain_size = evals.len();
    let mut channel = DefaultProverChannel::<E, H, DefaultRandomCoin<H>>::new(domain_size, num_queries);
    prover.build_layers(&mut channel, evals.to_vec());
    let mut positions = channel.draw_query_positions(0);
    if let Some(forced) = FORCED_POSITIONS.with(|f| f.borrow().clone()) {
        positions = forced;
    }
    let proof = prover.build_proof(&positions);
    let commitments = channel.layer_commitments().to_vec();

    // through bytes and back
    let mut bytes = Vec::new();
    proof.write_into(&mut bytes);
    if let Some(k) = tamper {
        // flip one bit in the serialized layer data / remainder (skipping the first byte, the layer count)
        let idx = 1 + k % (bytes.len() - 2);
        bytes[idx] ^= 1 << (k % 8);
    }
    let mut reader = SliceReader::new(&bytes);
    let proof = match FriProof::read_from(&mut reader) {
        Ok(p) => p,
        Err(_) => return Err(VerifierError::InvalidRemainderFolding), // failing to parse counts as rejection
    };
    if reader.has_more_bytes() {
        if tamper.is_some() {
            // a flipped length byte shortened the proof: inside a STARK proof the following fields would be
            // misaligned; count as refused
            return Err(VerifierError::InvalidRemainderFolding);
        }
        fail("FriProof::read_from left bytes of an honest proof unread".to_string());
    }
    if tamper.is_none() {
        // channel contract: the commitments the verifier reads are exactly the ones it was constructed with - none is
        // derived from the proof - and a list without the remainder commitment is refused
        use winter_fri::VerifierChannel;
        match DefaultVerifierChannel::<E, H>::new(proof.clone(), commitments.clone(), domain_size, options.folding_factor()) {
            Ok(mut c) => {
                if c.read_fri_layer_commitments() != commitments {
                    fail("DefaultVerifierChannel hands out commitments other than the ones it was given".to_string());
                }
            },
            Err(e) => fail(format!("DefaultVerifierChannel::new refuses an honest proof: {e}")),
        }
        let mut short = commitments.clone();
        short.pop();
        if DefaultVerifierChannel::<E, H>::new(proof.clone(), short, domain_size, options.folding_factor()).is_ok() {
            fail(format!(
                "DefaultVerifierChannel::new accepts a commitment list without the remainder commitment ({} commitments)",
                commitments.len() - 1
            ));
        }
    }
    if tamper.is_none() && proof.num_layers() >= 1 {
        // a transcript whose number of layers differs from the number of folding steps of the options, with a commitment
        // list that matches the PROOF (so the channel is consistent in itself): the last layer and its commitment
        // dropped / the last layer and its commitment duplicated. Must be refused - by the channel, by FriVerifier::new
        // or by verify - and must not panic.
        let nl = proof.num_layers();
        let mut bounds = vec![1usize];
        for _ in 0..nl {
            let mut p = *bounds.last().unwrap();
            for _ in 0..2 {
                let len = u32::from_le_bytes([bytes[p], bytes[p + 1], bytes[p + 2], bytes[p + 3]]) as usize;
                p += 4 + len;
            }
            bounds.push(p);
        }
        for dup in [false, true] {
            let mut b2 = Vec::new();
            let mut c2 = commitments.clone();
            if dup {
                b2.push((nl + 1) as u8);
                b2.extend_from_slice(&bytes[1..bounds[nl]]);
                b2.extend_from_slice(&bytes[bounds[nl - 1]..bounds[nl]]);
                c2.insert(nl, commitments[nl - 1]);
            } else {
                b2.push((nl - 1) as u8);
                b2.extend_from_slice(&bytes[1..bounds[nl - 1]]);
                c2.remove(nl - 1);
            }
            b2.extend_from_slice(&bytes[bounds[nl]..]);
            let what = if dup { "duplicated" } else { "dropped" };
            let outcome = catch_unwind(AssertUnwindSafe(|| -> Result<(), String> {
                let p2 = FriProof::read_from(&mut SliceReader::new(&b2)).map_err(|e| e.to_string())?;
                let mut ch = DefaultVerifierChannel::<E, H>::new(p2, c2.clone(), domain_size, options.folding_factor()).map_err(|e| e.to_string())?;
                let mut coin = DefaultRandomCoin::<H>::new(&[]);
                let v = FriVerifier::new(&mut ch, &mut coin, options.clone(), max_degree).map_err(|e| e.to_string())?;
                let queried: Vec<E> = positions.iter().map(|&p| evals[p]).collect();
                v.verify(&mut ch, &queried, &positions).map_err(|e| e.to_string())
            }));
            match outcome {
                Err(_) => fail(format!("the FRI verifier PANICS on a transcript with the last of {nl} layers and its commitment {what} (domain {domain_size}, folding {})", options.folding_factor())),
                Ok(Ok(())) => fail(format!("the FRI verifier ACCEPTS a transcript with the last of {nl} layers and its commitment {what}")),
                Ok(Err(_)) => {},
            }
        }
    }
    if tamper.is_none() {
        // the number of partitions (the last byte of the serialized proof, log2 of the count) is layout metadata chosen by
        // the prover and bound by nothing: whatever it claims - also counts above the size of a folded layer - the verifier
        // must answer with Ok or Err, never with a panic
        for log_partitions in 0..=255u8 {
            let mut b2 = bytes.clone();
            *b2.last_mut().unwrap() = log_partitions;
            let outcome = catch_unwind(AssertUnwindSafe(|| -> Result<(), String> {
                let p2 = FriProof::read_from(&mut SliceReader::new(&b2)).map_err(|e| e.to_string())?;
                let mut ch = DefaultVerifierChannel::<E, H>::new(p2, commitments.clone(), domain_size, options.folding_factor()).map_err(|e| e.to_string())?;
                let mut coin = DefaultRandomCoin::<H>::new(&[]);
                let v = FriVerifier::new(&mut ch, &mut coin, options.clone(), max_degree).map_err(|e| e.to_string())?;
                let queried: Vec<E> = positions.iter().map(|&p| evals[p]).collect();
                v.verify(&mut ch, &queried, &positions).map_err(|e| e.to_string())
            }));
            if outcome.is_err() {
                fail(format!(
                    "the FRI verifier PANICS on a proof that claims 2^{log_partitions} partitions (domain {domain_size}, folding {}, {} layers)",
                    options.folding_factor(),
                    proof.num_layers()
                ));
            }
        }
    }
    let mut vchannel = match DefaultVerifierChannel::<E, H>::new(proof, commitments, domain_size, options.folding_factor()) {
        Ok(c) => c,
        Err(_) => return Err(VerifierError::InvalidRemainderFolding),
    };
    let mut coin = DefaultRandomCoin::<H>::new(&[]);
    let verifier = FriVerifier::new(&mut vchannel, &mut coin, options.clone(), max_degree)?;
    let mut queried: Vec<E> = positions.iter().map(|&p| evals[p]).collect();
    if let Some(k) = CORRUPT_CLAIM.with(|c| c.get()) {
        let k = k % queried.len();
        queried[k] += E::ONE;
    }
    verifier.verify(&mut vchannel, &queried, &positions)
}

fn grid<B, E, H>(tag: &str, full: bool, rng: &mut Rng, cases: &mut u64)
where
    B: StarkField,
    E: FieldElement<BaseField = B>,
    H: crypto::ElementHasher<BaseField = B>,
{
    for log_n in 3..=7usize {
        if !full && log_n % 2 == 0 {
            continue;
        }
        let n = 1usize << log_n;
        for blowup in [2usize, 4, 8] {
            for folding in [2usize, 4, 8, 16] {
                for rmd in [0usize, 1, 3, 7, 15, 31] {
                    let options = FriOptions::new(blowup, folding, rmd);
                    let domain = n * blowup;
                    // well-formed schedules only (C15): at least one remainder coefficient, and the degree
                    // bound must survive every fold without truncation
                    let layers = options.num_fri_layers(domain);
                    if layers * folding.trailing_zeros() as usize > log_n {
                        continue;
                    }
                    let mut prover: FriProver<B, E, DefaultProverChannel<E, H, DefaultRandomCoin<H>>, H> = FriProver::new(options.clone());
                    // one prover instance is reused for every polynomial of this configuration (C15)
                    for (what, num_coeffs) in [("degree == bound", n), ("degree 0", 1), ("low degree", (n / 2).max(1))] {
                        for queries in [1usize, 7, 40] {
                            if queries >= domain {
                                continue;
                            }
                            let evals = evaluations::<B, E>(num_coeffs, domain, rng);
                            let r = catch_unwind(AssertUnwindSafe(|| run::<B, E, H>(&mut prover, &options, &evals, n - 1, queries, None)));
                            *cases += 1;
                            match r {
                                Ok(Ok(())) => {},
                                Ok(Err(e)) => fail(format!(
                                    "honest FRI proof rejected ({e}): field={tag} trace_len={n} blowup={blowup} folding={folding} remainder_max_degree={rmd} poly={what} queries={queries}"
                                )),
                                Err(_) => fail(format!(
                                    "FRI prover/verifier panicked: field={tag} trace_len={n} blowup={blowup} folding={folding} remainder_max_degree={rmd} poly={what} queries={queries}"
                                )),
                            }
                        }
                    }
                    // the claimed evaluations handed to the verifier differ from the committed function at ONE
                    // queried position (the other queried positions are consistent): must be refused
                    for k in 0..3usize {
                        let evals = evaluations::<B, E>(n, domain, rng);
                        CORRUPT_CLAIM.with(|c| c.set(Some(k * 3)));
                        let r = catch_unwind(AssertUnwindSafe(|| run::<B, E, H>(&mut prover, &options, &evals, n - 1, 7.min(domain - 1), None)));
                        CORRUPT_CLAIM.with(|c| c.set(None));
                        *cases += 1;
                        match r {
                            Ok(Ok(())) => fail(format!(
                                "evaluations that differ from the committed layer at one queried position are accepted: field={tag} trace_len={n} blowup={blowup} folding={folding} remainder_max_degree={rmd} changed_query={}",
                                k * 3
                            )),
                            Ok(Err(_)) => {},
                            Err(_) => fail(format!(
                                "verifier panicked on inconsistent claimed evaluations: field={tag} trace_len={n} blowup={blowup} folding={folding} remainder_max_degree={rmd}"
                            )),
                        }
                    }
                    // a tampered proof byte must be refused (a handful of positions per configuration)
                    for k in 0..6u64 {
                        let evals = evaluations::<B, E>(n, domain, rng);
                        let t = (rng.next() % 100_000) as usize + k as usize;
                        let r = catch_unwind(AssertUnwindSafe(|| run::<B, E, H>(&mut prover, &options, &evals, n - 1, 7.min(domain - 1), Some(t))));
                        *cases += 1;
                        match r {
                            Ok(Ok(())) => fail(format!(
                                "FRI proof with a flipped bit accepted: field={tag} trace_len={n} blowup={blowup} folding={folding} remainder_max_degree={rmd} tamper_index={t}"
                            )),
                            Ok(Err(_)) => {},
                            Err(_) => fail(format!(
                                "verifier panicked on a tampered FRI proof: field={tag} trace_len={n} blowup={blowup} folding={folding} remainder_max_degree={rmd} tamper_index={t}"
                            )),
                        }
                    }
                }
            }
        }
    }
}

/// evaluations of polynomials above the claimed degree bound are refused, for bounds d with
/// d + 1 = j * folding^layers for every small j (so that no DegreeTruncation fires first)
fn above_bound<B, H>(tag: &str, rng: &mut Rng, cases: &mut u64)
where
    B: StarkField,
    H: crypto::ElementHasher<BaseField = B>,
{
    for (domain, blowup, folding, rmd) in [(512usize, 8usize, 2usize, 3usize), (256, 4, 4, 3), (512, 8, 2, 7), (128, 2, 2, 1), (1024, 8, 4, 15)] {
        let options = FriOptions::new(blowup, folding, rmd);
        let layers = options.num_fri_layers(domain);
        let unit = folding.pow(layers as u32);
        for j in 1..=(domain / blowup / unit).max(1) {
            let bound = j * unit - 1; // claimed degree bound
            if bound + 1 > domain / blowup {
                continue;
            }
            for excess in [1usize, 2, unit, domain / blowup] {
                let num_coeffs = bound + 1 + excess;
                if num_coeffs > domain {
                    continue;
                }
                let evals = evaluations::<B, B>(num_coeffs, domain, rng);
                let mut prover: FriProver<B, B, DefaultProverChannel<B, H, DefaultRandomCoin<H>>, H> = FriProver::new(options.clone());
                let r = catch_unwind(AssertUnwindSafe(|| run::<B, B, H>(&mut prover, &options, &evals, bound, 24, None)));
                *cases += 1;
                match r {
                    Ok(Ok(())) => fail(format!(
                        "polynomial of degree {} accepted for claimed bound {bound}: field={tag} domain={domain} blowup={blowup} folding={folding} remainder_max_degree={rmd}",
                        num_coeffs - 1
                    )),
                    _ => {}, // refused (an error or a prover-side panic on an ill-formed claim)
                }
            }
        }
    }
}

/// contract of the provided method VerifierChannel::read_layer_queries (used by the FRI and the STARK verifier
/// channels): it returns values only if MerkleTree::verify_batch accepts the layer opening for exactly the
/// given positions and commitment - whatever the reason verify_batch refuses for
fn layer_query_contract<B, H>(tag: &str, rng: &mut Rng, cases: &mut u64)
where
    B: StarkField,
    H: crypto::ElementHasher<BaseField = B>,
{
    use crypto::MerkleTree;
    use winter_fri::{folding::fold_positions, VerifierChannel};
    const N: usize = 4;
    for (domain, blowup, queries) in [(64usize, 4usize, 3usize), (256, 8, 9), (1024, 8, 20)] {
        let options = FriOptions::new(blowup, N, 3);
        let evals = evaluations::<B, B>(domain / blowup, domain, rng);
        let mut channel = DefaultProverChannel::<B, H, DefaultRandomCoin<H>>::new(domain, queries);
        let mut prover: FriProver<B, B, DefaultProverChannel<B, H, DefaultRandomCoin<H>>, H> = FriProver::new(options.clone());
        prover.build_layers(&mut channel, evals);
        let positions = channel.draw_query_positions(0);
        let proof = prover.build_proof(&positions);
        let commitments = channel.layer_commitments().to_vec();
        let honest = fold_positions(&positions, domain, N);
        let leaves = domain / N;
        let mut lists: Vec<(String, Vec<usize>)> = vec![
            ("the honest folded positions".into(), honest.clone()),
            ("no positions".into(), vec![]),
            ("all positions zero".into(), vec![0; honest.len()]),
            ("every leaf".into(), (0..leaves).collect()),
            ("more positions than leaves".into(), (0..=leaves).collect()),
        ];
        for k in 0..honest.len() {
            let mut l = honest.clone();
            l[k] = honest[(k + 1) % honest.len()];
            lists.push((format!("position {k} duplicated from its neighbour"), l));
            for v in [leaves, leaves + 1, usize::MAX, (honest[k] + 1) % leaves] {
                let mut l = honest.clone();
                l[k] = v;
                lists.push((format!("position {k} replaced by {v}"), l));
            }
            let mut l = honest.clone();
            l.remove(k);
            lists.push((format!("position {k} dropped"), l));
            let mut l = honest.clone();
            l.push(honest[k]);
            lists.push((format!("position {k} repeated at the end"), l));
        }
        for (what, list) in lists {
            // (the commitment: the right one, another layer's, and the all-zero digest - what an error of the root computation must
            // never be mistaken for)
            for root_kind in 0..3usize {
                let bad_root = root_kind != 0;
                let mk = || DefaultVerifierChannel::<B, H>::new(proof.clone(), commitments.clone(), domain, N).unwrap();
                let commitment = match root_kind { 0 => commitments[0], 1 => commitments[1], _ => <H::Digest as Default>::default() };
                let reference = catch_unwind(AssertUnwindSafe(|| {
                    let mut c = mk();
                    let layer_proof = c.take_next_fri_layer_proof();
                    MerkleTree::<H>::verify_batch(&commitment, &list, &layer_proof).is_ok()
                }));
                let got = catch_unwind(AssertUnwindSafe(|| {
                    let mut c = mk();
                    c.read_layer_queries::<N>(&list, &commitment).is_ok()
                }));
                *cases += 1;
                let honest_ok = matches!(reference, Ok(true));
                match (reference, got) {
                    (Ok(r), Ok(g)) if r == g => {},
                    (Ok(r), Ok(g)) => fail(format!(
                        "read_layer_queries returned {} although verify_batch {} the opening: field={tag} domain={domain} positions: {what} wrong_commitment={bad_root}",
                        if g { "values" } else { "an error" },
                        if r { "accepts" } else { "refuses" }
                    )),
                    _ => fail(format!("read_layer_queries / verify_batch panicked: field={tag} domain={domain} positions: {what}")),
                }
                if what.starts_with("the honest") && !bad_root && !honest_ok {
                    fail(format!("the honest layer opening is refused: field={tag} domain={domain}"));
                }
            }
        }
    }
}

/// layers whose opened values exceed 64 KiB (folding factor 16, 32-byte elements, up to 255 queries) survive
/// serialization and verify; cubic-extension remainders (24-byte elements) parse
fn large_layers(cases: &mut u64, rng: &mut Rng) {
    use math::fields::{CubeExtension, QuadExtension};
    type Q = QuadExtension<f128::BaseElement>;
    type H = Blake3_256<f128::BaseElement>;
    for queries in [127usize, 128, 200, 255] {
        let (n, blowup) = (4096usize, 4usize);
        let options = FriOptions::new(blowup, 16, 7);
        let evals = evaluations::<f128::BaseElement, Q>(n, n * blowup, rng);
        let mut prover: FriProver<f128::BaseElement, Q, DefaultProverChannel<Q, H, DefaultRandomCoin<H>>, H> = FriProver::new(options.clone());
        *cases += 1;
        match catch_unwind(AssertUnwindSafe(|| run::<f128::BaseElement, Q, H>(&mut prover, &options, &evals, n - 1, queries, None))) {
            Ok(Ok(())) => {},
            Ok(Err(e)) => fail(format!("honest FRI proof with large layers rejected ({e}): quadratic extension of f128, trace_len={n} folding=16 queries={queries}")),
            Err(_) => fail(format!("FRI prover/verifier panicked on large layers: queries={queries}")),
        }
    }
    // exactly 255 distinct folded positions in the first layer (the documented maximum of a batch opening): 255 distinct
    // positions, and 305 positions of which 50 repeat a folded position; 254 as the neighbouring case
    for (what, positions) in [
        ("254 distinct", (0..254usize).collect::<Vec<_>>()),
        ("255 distinct", (0..255usize).map(|i| 4 * i + 1).collect::<Vec<_>>()),
        ("305 positions folding to 255", (0..255usize).chain((0..50usize).map(|i| i + 1024)).collect::<Vec<_>>()),
    ] {
        let (n, blowup) = (4096usize, 4usize);
        let options = FriOptions::new(blowup, 16, 7);
        let evals = evaluations::<f128::BaseElement, Q>(n, n * blowup, rng);
        let mut prover: FriProver<f128::BaseElement, Q, DefaultProverChannel<Q, H, DefaultRandomCoin<H>>, H> = FriProver::new(options.clone());
        *cases += 1;
        FORCED_POSITIONS.with(|f| *f.borrow_mut() = Some(positions.clone()));
        let r = catch_unwind(AssertUnwindSafe(|| run::<f128::BaseElement, Q, H>(&mut prover, &options, &evals, n - 1, 40, None)));
        FORCED_POSITIONS.with(|f| *f.borrow_mut() = None);
        match r {
            Ok(Ok(())) => {},
            Ok(Err(e)) => fail(format!("honest FRI proof rejected ({e}): quadratic extension of f128, trace_len={n} folding=16 query positions: {what}")),
            Err(_) => fail(format!("FRI prover/verifier panicked: trace_len={n} folding=16 query positions: {what}")),
        }
    }
    let _ = core::marker::PhantomData::<CubeExtension<f64::BaseElement>>;
}

/// layer trees built from several partitions (a layout only distributed provers produce; FriProver always announces one):
/// a one-layer proof assembled in the wire format for 1, 2 and 4 partitions. The honest one - rows holding f(x), f(-x)
/// of a polynomial within the bound, stored at the slots map_positions_to_indexes assigns - is accepted; one whose rows
/// were computed with the x-coordinate of the Merkle SLOT instead of the position (a function far above the bound when
/// slot != position) is refused: the folding step is checked at the x-coordinates of the queried positions.
fn partitioned_layout(cases: &mut u64, rng: &mut Rng) {
    use crypto::{ElementHasher, MerkleTree};
    use utils::ByteWriter;
    use winter_fri::{folding::fold_positions, utils::map_positions_to_indexes};
    type B = f128::BaseElement;
    type H = Blake3_256<B>;
    const MAX_DEGREE: usize = 7;
    const BLOWUP: usize = 8;
    const DOMAIN: usize = (MAX_DEGREE + 1) * BLOWUP;
    const ROWS: usize = DOMAIN / 2;
    for log_partitions in 0..=2u8 {
        for distorted in [false, true] {
            if distorted && log_partitions == 0 {
                continue; // slot == position: the distorted construction is the honest one
            }
            let options = FriOptions::new(BLOWUP, 2, 3);
            let num_partitions = 1usize << log_partitions;
            let offset: B = options.domain_offset();
            let g = B::get_root_of_unity(DOMAIN.ilog2());
            let g2 = g * g;
            let all_rows: Vec<usize> = (0..ROWS).collect();
            let slots = map_positions_to_indexes(&all_rows, DOMAIN, 2, num_partitions);
            let le: Vec<B> = (0..4).map(|_| B::from((rng.next() >> 33) as u32)).collect();
            let lo: Vec<B> = (0..4).map(|_| B::from(((rng.next() >> 33) as u32) | 1)).collect();
            let mut evals = vec![B::ZERO; DOMAIN];
            let mut rows = vec![[B::ZERO; 2]; ROWS];
            for j in 0..ROWS {
                let y = offset * g2.exp((j as u64).into());
                let (e, o) = (math::polynom::eval(&le, y), math::polynom::eval(&lo, y));
                let at = if distorted { slots[j] } else { j };
                let x = offset * g.exp((at as u64).into());
                rows[j] = [e + x * o, e - x * o];
                evals[j] = rows[j][0];
                evals[j + ROWS] = rows[j][1];
            }
            let mut leaves = vec![<H as Hasher>::Digest::default(); ROWS];
            for j in 0..ROWS {
                leaves[slots[j]] = H::hash_elements(&rows[j]);
            }
            let tree = MerkleTree::<H>::new(leaves).unwrap();
            let root = *tree.root();
            let mut coin = DefaultRandomCoin::<H>::new(&[]);
            coin.reseed(root);
            let alpha: B = coin.draw().unwrap();
            let remainder: Vec<B> = le.iter().zip(lo.iter()).map(|(&e, &o)| e + alpha * o).collect();
            let remainder_commitment = H::hash_elements(&remainder);
            coin.reseed(remainder_commitment);
            let _: B = coin.draw().unwrap();
            let mut positions = coin.draw_integers(12, DOMAIN, 0).unwrap();
            positions.sort_unstable();
            positions.dedup();
            let folded = fold_positions(&positions, DOMAIN, 2);
            let indexes = map_positions_to_indexes(&folded, DOMAIN, 2, num_partitions);
            let opening = tree.prove_batch(&indexes).unwrap();
            let mut values: Vec<u8> = Vec::new();
            for &j in folded.iter() {
                values.write_many(&rows[j]);
            }
            let paths = opening.serialize_nodes();
            let mut remainder_bytes: Vec<u8> = Vec::new();
            remainder_bytes.write_many(&remainder);
            let mut bytes: Vec<u8> = Vec::new();
            bytes.write_u8(1);
            bytes.write_u32(values.len() as u32);
            bytes.write_bytes(&values);
            bytes.write_u32(paths.len() as u32);
            bytes.write_bytes(&paths);
            bytes.write_u16(remainder_bytes.len() as u16);
            bytes.write_bytes(&remainder_bytes);
            bytes.write_u8(log_partitions);
            let proof = FriProof::read_from_bytes(&bytes).unwrap();
            *cases += 1;
            let r = catch_unwind(AssertUnwindSafe(|| {
                let mut channel = DefaultVerifierChannel::<B, H>::new(proof, vec![root, remainder_commitment], DOMAIN, 2)
                    .map_err(|_| VerifierError::InvalidRemainderFolding)?;
                let mut vcoin = DefaultRandomCoin::<H>::new(&[]);
                let verifier = FriVerifier::new(&mut channel, &mut vcoin, options.clone(), MAX_DEGREE)?;
                let queried: Vec<B> = positions.iter().map(|&p| evals[p]).collect();
                verifier.verify(&mut channel, &queried, &positions)
            }));
            match (distorted, r) {
                (false, Ok(Ok(()))) | (true, Ok(Err(_))) => {},
                (false, Ok(Err(e))) => fail(format!("honest one-layer FRI proof with {num_partitions} partition(s) rejected ({e})")),
                (true, Ok(Ok(()))) => fail(format!(
                    "a function far above the degree bound, folded at the x-coordinates of the Merkle slots, is accepted with {num_partitions} partitions"
                )),
                (_, Err(_)) => fail(format!("FRI verifier panicked on a proof with {num_partitions} partitions")),
            }
        }
    }
}

#[test]
fn fri_end_to_end_bounded() {
    let mut rng = Rng(0xA0761D6478BD642F ^ seed().wrapping_mul(0xE7037ED1A0B428DB) | 1);
    let mut cases = 0u64;
    grid::<f128::BaseElement, f128::BaseElement, Blake3_256<f128::BaseElement>>("f128", true, &mut rng, &mut cases);
    grid::<f64::BaseElement, f64::BaseElement, Blake3_256<f64::BaseElement>>("f64", true, &mut rng, &mut cases);
    grid::<f128::BaseElement, math::fields::QuadExtension<f128::BaseElement>, Blake3_256<f128::BaseElement>>("f128 quadratic", false, &mut rng, &mut cases);
    grid::<f64::BaseElement, math::fields::QuadExtension<f64::BaseElement>, Blake3_256<f64::BaseElement>>("f64 quadratic", false, &mut rng, &mut cases);
    grid::<f64::BaseElement, math::fields::CubeExtension<f64::BaseElement>, Blake3_256<f64::BaseElement>>("f64 cubic", false, &mut rng, &mut cases);
    large_layers(&mut cases, &mut rng);
    partitioned_layout(&mut cases, &mut rng);
    above_bound::<f128::BaseElement, Blake3_256<f128::BaseElement>>("f128", &mut rng, &mut cases);
    layer_query_contract::<f128::BaseElement, Blake3_256<f128::BaseElement>>("f128", &mut rng, &mut cases);
    layer_query_contract::<f64::BaseElement, Blake3_256<f64::BaseElement>>("f64", &mut rng, &mut cases);
    println!("NB-RESULT name=fri_end_to_end_bounded cases={cases}");
}

// ------------------------------------------------------------------------------------------------
// The folding identity of `apply_drp` itself (C15): for a polynomial f given by its coefficients, its evaluations
// over the coset offset * <g> (|<g>| = domain size), grouped in rows of N, fold - for the challenge alpha - to the
// evaluations over offset^N * <g^N> of the polynomial whose i-th coefficient is sum_k alpha^k * f[N*i + k].
// Reference: coefficients folded directly, evaluated by Horner at explicitly computed points.
// Bound: N in {2, 4, 8, 16}, domains N*2 .. 256, offsets {1, generator, 5, seeded}, base fields and extensions.

fn seeded_elem<B: StarkField, E: FieldElement<BaseField = B>>(rng: &mut Rng) -> E {
    let mut bytes = vec![0u8; E::ELEMENT_BYTES];
    for chunk in bytes.chunks_mut(B::ELEMENT_BYTES) {
        chunk[..4].copy_from_slice(&(((rng.next() >> 33) as u32) | 1).to_le_bytes());
    }
    E::read_from_bytes(&bytes).unwrap()
}

fn horner<E: FieldElement>(p: &[E], x: E) -> E {
    let mut acc = E::ZERO;
    for c in p.iter().rev() {
        acc = acc * x + *c;
    }
    acc
}

fn folding_identity<B, E, const N: usize>(tag: &str, rng: &mut Rng, cases: &mut u64)
where
    B: StarkField,
    E: FieldElement<BaseField = B>,
{
    let offsets = [B::ONE, B::GENERATOR, B::from(5u32), B::from(((rng.next() >> 34) as u32) | 3)];
    let mut domain_size = 2 * N;
    while domain_size <= 256 {
        for &offset in offsets.iter() {
            for num_coeffs in [domain_size / 2, domain_size / 4 + 1, 1] {
                let f: Vec<E> = (0..num_coeffs).map(|_| seeded_elem::<B, E>(rng)).collect();
                let alpha: E = seeded_elem::<B, E>(rng);
                let g = B::get_root_of_unity(domain_size.trailing_zeros());
                // evaluations over offset * g^i, grouped into rows [i, i + n/N, i + 2n/N, ...]
                let mut evals = Vec::with_capacity(domain_size);
                let mut x = offset;
                for _ in 0..domain_size {
                    evals.push(horner(&f, E::from(x)));
                    x *= g;
                }
                let rows = domain_size / N;
                let transposed: Vec<[E; N]> = (0..rows).map(|i| core::array::from_fn(|k| evals[i + k * rows])).collect();
                let folded = winter_fri::folding::apply_drp(&transposed, offset, alpha);
                // reference: fold the coefficients, evaluate over offset^N * (g^N)^i
                let mut fc = vec![E::ZERO; (num_coeffs + N - 1) / N];
                for (j, c) in f.iter().enumerate() {
                    let mut a = E::ONE;
                    for _ in 0..(j % N) {
                        a *= alpha;
                    }
                    fc[j / N] += a * *c;
                }
                let mut on = B::ONE;
                let mut gn = B::ONE;
                for _ in 0..N {
                    on *= offset;
                    gn *= g;
                }
                if folded.len() != rows {
                    fail(format!("{tag}: apply_drp returned {} values for {rows} rows (N = {N})", folded.len()));
                }
                let mut y = on;
                for (i, v) in folded.iter().enumerate() {
                    *cases += 1;
                    if *v != horner(&fc, E::from(y)) {
                        fail(format!("{tag}: folding identity violated: N = {N}, domain {domain_size}, offset {offset}, {num_coeffs} coefficients, folded position {i}"));
                    }
                    y *= gn;
                }
            }
        }
        domain_size *= 4;
    }
}

#[test]
fn folding_identity_bounded() {
    let mut rng = Rng(0x8EBC6AF09C88C6E3 ^ seed().wrapping_mul(0x589965CC75374CC3) | 1);
    let mut cases = 0u64;
    macro_rules! all_n {
        ($b:ty, $e:ty, $tag:expr) => {
            folding_identity::<$b, $e, 2>($tag, &mut rng, &mut cases);
            folding_identity::<$b, $e, 4>($tag, &mut rng, &mut cases);
            folding_identity::<$b, $e, 8>($tag, &mut rng, &mut cases);
            folding_identity::<$b, $e, 16>($tag, &mut rng, &mut cases);
        };
    }
    all_n!(f128::BaseElement, f128::BaseElement, "f128");
    all_n!(f64::BaseElement, f64::BaseElement, "f64");
    all_n!(f64::BaseElement, math::fields::QuadExtension<f64::BaseElement>, "f64 quadratic");
    all_n!(f64::BaseElement, math::fields::CubeExtension<f64::BaseElement>, "f64 cubic");
    all_n!(f128::BaseElement, math::fields::QuadExtension<f128::BaseElement>, "f128 quadratic");
    println!("NB-RESULT name=folding_identity_bounded cases={cases}");
}
