"""Registry of verification units: which harness file is appended to which real source file, which
obligations (harnesses / Verus functions) it carries, and which property each obligation serves."""

TRUSTED_BASE = [
    "rustc (Kani's pinned nightly), Kani 0.68 codegen, CBMC 6.11, CaDiCaL; Verus 0.2026.09.13 + Z3",
    "Kani's models of std (Vec, slices, iterators); 64-bit usize",
    "harness modules are appended (add-only, cfg(kani)) to a scratch copy of /repo's working tree; "
    "function bodies and their callees are the repository's",
]

PROPS = {}
UNITS = []
NOT_APPLICABLE = {}


def H(name, props, fn, clause, tier="quick", bounded=None, timeout=300, canary=False, cost=1, **kw):
    d = dict(name=name, props=props, fn=fn, clause=clause, tier=tier, bounded=bounded, timeout=timeout,
             canary=canary, cost=cost)
    d.update(kw)
    return d


def kani_unit(unit, package, into, harness_file, modpath, harnesses, modname="verif_kani", extra_inject=()):
    UNITS.append(dict(unit=unit, engine="kani", package=package, into=into, harness_file=harness_file,
                      modpath=modpath + "::" + modname, modname=modname, harnesses=harnesses,
                      extra_inject=list(extra_inject)))


def native_unit(unit, package, crate_dir, test_file, props, fn, clause, bounded, **kw):
    d = dict(unit=unit, engine="native", package=package, crate_dir=crate_dir, test_file=test_file, props=props, fn=fn,
             clause=clause, bounded=bounded, harnesses=[])
    d.update(kw)
    UNITS.append(d)


def verus_unit(unit, template, props, functions, **kw):
    d = dict(unit=unit, engine="verus", template=template, props=props, functions=functions, harnesses=[])
    d.update(kw)
    UNITS.append(d)


from units_math import *   # noqa
from units_utils import *  # noqa
from units_air import *  # noqa
from units_crypto import *  # noqa
from units_verifier import *  # noqa
from units_fri import *  # noqa
from units_prover import *  # noqa

import props_meta  # noqa
