from registry import H, kani_unit, verus_unit, native_unit, PROPS, UNITS

STUB = "StubHasher double (8-byte digest, xor/rotate mixing): functional equalities only; parametricity of DefaultRandomCoin in its hasher"
kani_unit("crypto_random", "winter-crypto", "crypto/src/random/default.rs", "kani/crypto_random.rs", "random::default", [
    H("crypto_coin_new_contract", ["C19", "C04"], ["DefaultRandomCoin::new"], "seed == H::hash_elements(input), counter == 0",
      bounded="seed inputs of 0 and 2 symbolic elements"),
    H("crypto_coin_reseed_contract", ["C19", "C04"], ["DefaultRandomCoin::reseed"], "forall seed, counter, data: seed' == H::merge([seed, data]); counter' == 0"),
    H("crypto_coin_next_contract", ["C19"], ["DefaultRandomCoin::next"], "forall seed, counter < 2^64-5: counter' == counter+1; value == H::merge_with_int(seed, counter+1); seed unchanged"),
    H("crypto_coin_leading_zeros_contract", ["C19", "C04"], ["DefaultRandomCoin::check_leading_zeros"],
      "forall seed, nonce: result == trailing_zeros(le64(H::merge_with_int(seed, nonce)[..8])); coin unchanged"),
    H("crypto_coin_draw_integers_bounded", ["C19", "C04"], ["DefaultRandomCoin::draw_integers"],
      "forall seed, nonce, domain 2^0..2^63: under the documented precondition n < d: never panics, returns Ok with exactly n values, value_i == le64(mwi(mwi(seed,nonce), i+1)) & (d-1) < d; seed' == mwi(seed, nonce)",
      bounded="requested count n <= 3 (loop unwound; complete in seed, nonce, domain size)"),
    H("crypto_coin_draw_base_bounded", ["C19"], ["DefaultRandomCoin::draw", "f64::from_random_bytes"],
      "draw::<f64>() returns the first candidate < M as a canonical element and advances the counter by the number of candidates tried",
      bounded="one of the first two candidates is valid (rejection loop unwound 3 times)", timeout=600),
    H("crypto_random_canary_must_fail", ["C19", "C04"], [], "false claim: next() uses the old counter", canary=True),
], )
for u in UNITS:
    if u["unit"] == "crypto_random":
        u["trusted"] = [STUB]


B8 = "8 symbolic leaf digests (stub hasher); position set enumerated concretely"
kani_unit("crypto_merkle", "winter-crypto", "crypto/src/merkle/mod.rs", "kani/crypto_merkle.rs", "merkle", [
    H("merkle_root_bounded", ["C10"], ["MerkleTree::new", "build_merkle_nodes"], "root == reference fold of the leaves", bounded="4 and 8 symbolic leaves"),
    H("merkle_prove_verify_bounded", ["C10"], ["MerkleTree::prove", "MerkleTree::verify"],
      "forall i < 8: verify(root, i, prove(i)) is Ok; a different claimed leaf is rejected; prove(8) is an error", bounded="8 symbolic leaves, symbolic position", tier="thorough"),
    H("merkle_canary_must_fail", ["C10"], [], "false claim: the opening of leaf 1 verifies at position 2", canary=True),
])
for u in UNITS:
    if u["unit"] == "crypto_merkle":
        u["trusted"] = [STUB]

verus_unit("merklev", "merklev", ["C10"], ["MerkleTree::prove (every tree size / index: Err iff out of range, else the authentication path)",
            "MerkleTree::verify (length check; accepts iff the fold of the path along the index bits equals the root)", "MerkleTree::root",
            "lemma: verify(root(), i, prove(i)) accepts for every well-formed tree",
            "merkle::build_merkle_nodes (every size: the returned vector is the heap-ordered tree over the leaves - nodes[n/2 + k] == merge(leaves[2k], leaves[2k+1]), nodes[k] == merge(nodes[2k], nodes[2k+1]); the raw-pointer reinterpretation as digest pairs is modelled by two external functions)",
            "MerkleTree::new (Ok exactly for >= 2 leaves and a power-of-two count; the tree returned is well-formed - the pre-condition of prove / root / the completeness lemma - and holds the given leaves)"])

verus_unit("coinv", "coinv", ["C19", "C04"], [
    "DefaultRandomCoin::next", "DefaultRandomCoin::new", "DefaultRandomCoin::reseed", "DefaultRandomCoin::check_leading_zeros",
    "DefaultRandomCoin::draw (first accepted of at most 1000 candidates; counter advances by the candidates tried)",
    "DefaultRandomCoin::draw_integers (every requested count: exactly n values below the domain size, value i from merge_with_int(seed', i + 1), counter' == n; Err above 1000)"])

native_unit("merkle_native", "winter-crypto", "crypto", "native/merkle_bounded.rs", ["C10", "C06", "C03"],
            ["MerkleTree::prove_batch", "MerkleTree::verify_batch", "BatchMerkleProof::get_root", "BatchMerkleProof::into_paths",
             "BatchMerkleProof::from_paths", "merkle::map_indexes", "merkle::normalize_indexes"],
            "batch openings verify, decompress to the single paths in list order and re-compress; every single-element / shape / position mutation is rejected without a panic",
            "NATIVE EXECUTION, not a proof: trees of 2/4/8/16 leaves (Blake3_256), every non-empty position subset in ascending, descending and one seeded shuffled order; mutations for all subsets of trees <= 8 leaves and a seeded 1/128 sample of the 16-leaf tree")

for _n, _file in (("12", "mds_f64_12x12"), ("8", "mds_f64_8x8")):
    kani_unit("crypto_mds%s" % _n, "winter-crypto", "crypto/src/hash/mds/%s.rs" % _file, "kani/crypto_mds%s.rs" % _n, "hash::mds::%s" % _file, [
        H("mds%s_canonical_no_overflow_contract" % _n, ["C11"], ["%s::mds_multiply" % _file, "%s::mds_multiply_freq" % _file, "%s::block1/2/3" % _file, "fft::real_u64::fft4_real/ifft4_real_unreduced"],
          "forall states of canonical elements: no i64/u64 overflow in the frequency-domain path and every output element is canonical (< M)",
          timeout=900, cost=5, tier="thorough" if _n == "12" else "quick"),
        H("mds%s_unit_vectors_contract" % _n, ["C11"], ["%s::mds_multiply" % _file],
          "on every unit vector scaled by a symbolic 32-bit factor the result is the corresponding column of the documented circulant MDS matrix (with linearity, which is not proved here, this is the matrix product)",
          bounded="one non-zero coordinate, every position; raw value symbolic 32-bit for 8x8 (thorough tier), 1 and 2^32-1 for 12x12",
          timeout=900, timeout_thorough=1800, tier="quick" if _n == "12" else "thorough"),
    ] + ([H("mds12_unit_vector64_j3_contract", ["C11"], ["mds_f64_12x12::mds_multiply"],
            "state with one non-zero coordinate (position 3) holding any canonical word c: output i == MDS[i][3] * c mod M (independent 128-bit reference)",
            bounded="one non-zero coordinate at position 3; its 64-bit value fully symbolic", timeout=1800, timeout_thorough=2400, tier="thorough", cost=8)] if _n == "12" else []) + [
        H("mds%s_canary_must_fail" % _n, ["C11"], [], "false claim: second output is always 0", canary=True),
    ])

PERM = "Rescue permutation replaced by a mixing double and BaseElement::new by its contract (kani::stub): the clauses are equalities between hash functions that hold for every permutation"
kani_unit("crypto_rp64", "winter-crypto", "crypto/src/hash/rescue/rp64_256/mod.rs", "kani/crypto_rp64.rs", "hash::rescue::rp64_256", [
    H("rp64_hash_bytes_len%d_bounded" % L, ["C11"], ["Rp64_256::hash", "Rp64_256::hash_elements"],
      "hash(bytes) never panics and == hash_elements(encode(bytes)): 7-byte chunks, 0x01 terminator after the last byte, element count in the capacity",
      bounded="byte strings of length %d (content symbolic)" % L, timeout=900, tier="thorough" if L >= 57 else "quick")
    for L in (0, 1, 7, 8, 56, 57, 63)
] + [
    H("rp64_hash_elements_len%d_bounded" % L, ["C11", "C19"], ["Rp64_256::hash_elements"],
      "hash_elements == the documented sponge written independently in the harness (capacity word 0 = number of residues, rate words 4..11 absorbed by addition, permutation after every 8 residues and once for a partial block, digest = words 4..7)",
      bounded="lists of %d base-field elements (values symbolic; permutation double = rotation by one word plus a counter)" % L, timeout=900)
    for L in (0, 1, 7, 8, 9, 16, 17)
] + [
    H("rp64_hash_elements_extension_typing_bounded", ["C11"], ["Rp64_256::hash_elements", "FieldElement::slice_as_base_elements (quadratic, cubic over f64)"],
      "hashing 3 quadratic / 2 cubic extension elements / one quadratic element with zero tail == the documented sponge over the flattened residues (no dependence on base versus extension typing)",
      bounded="6 symbolic residues", timeout=900),
    H("rp64_merge_is_hash_of_concatenation_contract", ["C11"], ["Rp64_256::merge", "Rp64_256::hash_elements"],
      "forall digests a, b: merge([a, b]) == hash_elements(a || b)", timeout=900, tier="thorough"),
    H("rp64_merge_with_int_contract", ["C11", "C19", "C04", "C03"], ["Rp64_256::merge_with_int"],
      "forall seed, v: u64: merge_with_int(seed, v) == hash_elements(seed || [v]) if v < M else hash_elements(seed || [v mod M, v div M]); the absorbed encoding is injective in v", timeout=1200, tier="thorough"),
    H("rp64_canary_must_fail", ["C11", "C19", "C04", "C03"], [], "false claim: all 3-byte strings hash equally", canary=True),
])
for u in UNITS:
    if u["unit"] == "crypto_rp64":
        u["trusted"] = [PERM]

kani_unit("crypto_rp62", "winter-crypto", "crypto/src/hash/rescue/rp62_248/mod.rs", "kani/crypto_rp62.rs", "hash::rescue::rp62_248", [
    H("rp62_hash_bytes_len%d_bounded" % L, ["C11"], ["Rp62_248::hash", "Rp62_248::hash_elements"],
      "hash(bytes) never panics and == hash_elements(encode(bytes)): 7-byte chunks, 0x01 terminator after the last byte, element count in the capacity",
      bounded="byte strings of length %d (content symbolic)" % L, timeout=900, tier="thorough" if L >= 57 else "quick")
    for L in (0, 1, 7, 8, 56, 57, 63)
] + [
    H("rp62_hash_elements_len%d_bounded" % L, ["C11", "C19"], ["Rp62_248::hash_elements"],
      "hash_elements == the documented sponge written independently in the harness (last capacity word = number of residues, words 0..7 absorbed by addition, permutation after every 8 residues and once for a partial block, digest = words 0..3)",
      bounded="lists of %d base-field elements (values symbolic, any representative in [0, 2M); permutation double = rotation plus length-tag word plus counter)" % L, timeout=900)
    for L in (0, 1, 7, 8, 9, 16, 17)
] + [
    H("rp62_hash_elements_extension_typing_bounded", ["C11"], ["Rp62_248::hash_elements", "FieldElement::slice_as_base_elements (quadratic, cubic over f62)"],
      "hashing 3 quadratic / 2 cubic extension elements == the documented sponge over the flattened residues", bounded="6 symbolic residues", timeout=900),
    H("rp62_merge_is_hash_of_concatenation_contract", ["C11"], ["Rp62_248::merge", "Rp62_248::hash_elements"],
      "forall digests a, b: merge([a, b]) == hash_elements(a || b)", timeout=900),
    H("rp62_merge_with_int_contract", ["C11", "C19", "C04", "C03"], ["Rp62_248::merge_with_int"],
      "forall seed, v: u64: merge_with_int(seed, v) == hash_elements(seed || [v]) if v < M else hash_elements(seed || [v mod M, v div M]); the absorbed encoding is injective in v", timeout=1200, tier="thorough"),
    H("rp62_canary_must_fail", ["C11", "C19", "C04", "C03"], [], "false claim: all 3-byte strings hash equally", canary=True),
])
for u_ in UNITS:
    if u_["unit"] == "crypto_rp62":
        u_["trusted"] = [PERM, "f62 elements built from raw words by transmute in the harness (single-field struct)"]

kani_unit("crypto_rpjive", "winter-crypto", "crypto/src/hash/rescue/rp64_256_jive/mod.rs", "kani/crypto_rpjive.rs", "hash::rescue::rp64_256_jive", [
    H("rpjive_hash_bytes_len%d_bounded" % L, ["C11"], ["RpJive64_256::hash", "RpJive64_256::hash_elements"],
      "hash(bytes) never panics and == hash_elements(encode(bytes)): 7-byte chunks, 0x01 terminator after the last byte",
      bounded="byte strings of length %d (content symbolic)" % L, timeout=900)
    for L in (0, 1, 7, 8, 14, 28, 29, 35)
] + [
    H("rpjive_hash_elements_len%d_bounded" % L, ["C11", "C19"], ["RpJive64_256::hash_elements"],
      "hash_elements == the documented sponge with Hirose padding written independently in the harness (capacity word 0 = 1 iff the length is not a multiple of the rate 4; a partial block is completed by 1, 0, ..; digest = words 4..7)",
      bounded="lists of %d base-field elements (values symbolic)" % L, timeout=900)
    for L in (0, 1, 3, 4, 5, 8, 9)
] + [
    H("rpjive_hash_elements_extension_typing_bounded", ["C11"], ["RpJive64_256::hash_elements"],
      "hashing 3 quadratic / 2 cubic extension elements == the documented sponge over the flattened residues", bounded="6 symbolic residues", timeout=900),
    H("rpjive_merge_contract", ["C11"], ["RpJive64_256::merge", "RpJive64_256::apply_jive_summation"],
      "forall digests a, b: merge([a, b]) == the Jive compression (input halves + permuted halves) of the block a || b", timeout=900),
    H("rpjive_merge_with_int_contract", ["C11", "C19", "C04", "C03"], ["RpJive64_256::merge_with_int"],
      "forall seed, v: u64: merge_with_int(seed, v) == Jive compression of seed || [v, 0, 0, 5] if v < M else of seed || [v mod M, v div M, 0, 6]; the absorbed block is injective in v (a nonce and nonce + M are absorbed differently)", timeout=1200, tier="thorough"),
    H("rpjive_canary_must_fail", ["C11", "C19", "C04", "C03"], [], "false claim: all 3-byte strings hash equally", canary=True),
])
for u_ in UNITS:
    if u_["unit"] == "crypto_rpjive":
        u_["trusted"] = [PERM]


_MDS_FNS = ["fft::real_u64::{fft2_real, ifft2_real_unreduced, fft4_real, ifft4_real_unreduced}", "mds::block1", "mds::block2", "mds::block3",
            "mds::mds_multiply_freq (exact integer product with the documented MDS matrix for 32-bit lanes)",
            "mds::mds_multiply (every state: canonical result == MDS row times state mod M)"]
verus_unit("mds8v", "mds8", ["C11"], ["mds_f64_8x8: " + f for f in _MDS_FNS], rlimit=200)
verus_unit("mds12v", "mds12", ["C11"], ["mds_f64_12x12: " + f for f in _MDS_FNS], rlimit=200)

verus_unit("rescuev", "rescuev", ["C11"], [
    "Rp64_256::apply_round / apply_permutation / apply_sbox", "RpJive64_256::apply_round / apply_permutation / apply_sbox", "rp62_248::apply_round / apply_permutation",
    "round r == add ARK2[r] . MDS . inverse S-box . add ARK1[r] . MDS . S-box; permutation == 7 rounds in order; 64-bit S-box == lane-wise exp7 (template generated by tools/gen_rescue_units.py)"])

verus_unit("rescuev", "rescuev", ["C11"], [
    "Rp64_256::apply_round / RpJive64_256::apply_round / rp62_248::apply_round (every state and round: S-box, MDS, first round constants of that round, inverse S-box, MDS, second round constants - in that order; the step functions are named contracts proved or exercised elsewhere)",
    "Rp64_256::apply_permutation / RpJive64_256::apply_permutation / rp62_248::apply_permutation (rounds 0 .. NUM_ROUNDS - 1 in order, NUM_ROUNDS read from /repo)",
    "Rp64_256::apply_sbox (each of the 12 lanes is raised to the 7th power)"])


native_unit("hash_native", "winter-crypto", "crypto", "native/hash_bounded.rs", ["C11", "C10", "C19"],
            ["Blake3_256::{hash, merge, merge_with_int, hash_elements}", "Blake3_192::{hash, merge, merge_with_int, hash_elements}", "Sha3_256::{hash, merge, merge_with_int, hash_elements}", "ByteDigest::digests_as_bytes", "FieldElement::elements_as_bytes"],
            "the byte-oriented hashers equal their documented definition computed directly with the blake3 / sha3 crates: hash(bytes) == H(bytes) (24-byte truncation for Blake3_192); merge([a, b]) == H(a || b); merge_with_int(seed, v) == H(seed || le64(v)); hash_elements == H(canonical little-endian encodings of the residues) whatever the internal representation (Montgomery words, lazy f62 representatives) and whether the residues are typed as base or as quadratic / cubic extension elements",
            "NATIVE EXECUTION, not a proof: 3 hashers x 3 base fields; byte strings of every length 0..=200 (seeded content); 40 seeded digest pairs x 17 integers at the 64-bit boundaries and around the moduli; element lists of 0..=24 elements and of 26 longer lengths around 64 / 128 / 256 / 1024 bytes and elements (30 .. 2049) produced by additions, negations, subtractions and products (non-normalised representatives), regrouped into quadratic / cubic elements")


native_unit("rescue_native", "winter-crypto", "crypto", "native/rescue_bounded.rs", ["C11", "C03", "C04", "C19"],
            ["Rp64_256::{apply_round, apply_permutation, hash_elements, merge, merge_with_int, hash}", "RpJive64_256::{apply_round, apply_permutation, hash_elements, merge, merge_with_int, hash}", "Rp62_248::{hash, hash_elements, merge, merge_with_int} (relations between its public functions)", "the private helpers behind them: apply_sbox, apply_inv_sbox (exponentiation chains), apply_mds (frequency-domain fast path), add_constants"],
            "every round and the 7-round permutation equal the documented Rescue Prime round ARK2[r] + MDS * ((ARK1[r] + MDS * s^7)^(1/7)) computed independently over 128-bit reference arithmetic from the public MDS / ARK constants; hash_elements (and Rp64_256::merge) equal the documented sponge run on the reference permutation; hash(bytes) == hash_elements(encode(bytes)) for every length 0..=130, merge == hash of the concatenation, merge_with_int == hash_elements(seed || split(value)) resp. the Jive compression of the documented block, and merge_with_int is injective on 12 boundary integers (the native counterparts of the Kani contracts that run in the thorough tier)",
            "NATIVE EXECUTION, not a proof: 16 boundary values (0, 1, p-1, 2^32-1, 2^32, 2^63-1, ...) in every lane together, alone in each lane over zeros and over p-1, 300 seeded states, each x 7 rounds + the permutation; sponges on lists of 0..20 elements x 6 draws; lists of 0..=20 elements also typed as quadratic / cubic extension elements (Rp64_256, RpJive64_256: the digest must not depend on the typing)",
            timeout=900)
