"""per-property claim texts (MANIFEST level_claimed / level_note, evidence explanation)"""
from registry import PROPS, NOT_APPLICABLE

MIX = ("Mixed check: obligations listed under coverage.unbounded_obligations are proofs for all inputs (loop-free Kani harnesses "
       "over full-domain symbolic inputs, Verus functions); those under coverage.bounded are bounded symbolic executions of the "
       "real code with the stated bound and are not counted in obligations/discharged.")

PROPS["C06"] = dict(
    level="other", claimed=True,
    level_text="Totality contracts (never panics, never overflows, no out-of-bounds index, no unchecked allocation size) on the "
               "deserializers a proof passes through, decided by Kani on the real functions with fully symbolic header bytes; "
               "fixed-size headers are covered for every byte string, variable-size payloads up to the stated bound.",
    level_note="Not decided: verify() end to end on an arbitrary parsed proof (needs a user Air), allocation proportionality "
               "beyond read_many's capacity, the proven-security estimate (floating point). Trusted: Kani/CBMC, the "
               "alloc::fmt::format stub (message text only).",
    explanation=MIX)
PROPS["C12"] = dict(
    level="other", claimed=True,
    level_text="decode(encode(x)) == x, exact consumption, and 'constructor accepts => reader accepts' as Kani contracts on the "
               "real (de)serializers: complete for the size encoding, fixed-width integers, field elements, ProofOptions, "
               "FieldExtension and TraceInfo headers; bounded (stated per obligation) for containers and Context.",
    level_note="Not decided: whole-Proof round trip (modular composition only), ReadAdapter as byte source (C13), containers "
               "beyond the stated bounds. Trusted: Kani/CBMC, format stub.",
    explanation=MIX)
PROPS["C18"] = dict(
    level="other", claimed=True,
    level_text="get_conjectured_security equals the documented formula, without overflow, and is monotone, for every parameter "
               "combination a parsed context can carry (Kani, full domain); num_modulus_bits is the bit length of the claimed "
               "modulus; AcceptableOptions::validate consults the right estimate and rejects exactly below the minimum "
               "(contract relative to Proof::security_level).",
    level_note="Not decided: get_proven_security (f64 log2/powf/sqrt: no faithful model in CBMC) - neither value nor monotonicity; "
               "the OptionSet arm of validate; the InconsistentBaseField check inside VerifierChannel::new (needs an Air).",
    explanation=MIX)
PROPS["C19"] = dict(
    level="other", claimed=True,
    level_text="State-transition contracts of DefaultRandomCoin (new, reseed, next, draw, draw_integers, check_leading_zeros) over "
               "symbolic seeds/counters/nonces with a stub hasher, and validity of drawn elements (from_random_bytes of the three "
               "base fields accepts exactly canonical encodings).",
    level_note="Bounded in the requested count of draw_integers (<= 3) and the rejection loop of draw (<= 2 rejections). "
               "Trusted: parametricity of the coin in its hasher (StubHasher double), determinism of safe Rust. Extension-field "
               "from_random_bytes is not under contract.",
    explanation=MIX)

PROPS["C10"] = dict(
    level="other", claimed=True,
    level_text="Bounded symbolic execution of the real Merkle code with symbolic leaf digests: trees of 4 and 8 leaves, "
               "concretely enumerated position lists (ordered, unordered, siblings, non-siblings); completeness (openings verify, "
               "decompress to the single paths in list order, re-compress) and rejection of every single-element and shape mutation "
               "without panics; plus a full-domain contract on the index validation (any claimed depth, symbolic positions).",
    level_note="Bounded: tree sizes 4/8, the listed position lists, one mutation at a time. Rejection is shown for the StubHasher "
               "double (merge injective in each argument), i.e. as 'recomputed root differs', not as a collision-resistance argument. "
               "Concurrent tree construction is not covered.",
    explanation=MIX)

PROPS["C13"] = dict(
    level="other", claimed=True,
    level_text="Bounded differential execution of the real ReadAdapter against SliceReader (the reference semantics): every "
               "operation sequence up to length 3 on short streams under several chunkings, and long seeded sequences across the "
               "256-byte internal buffer. This is a bounded stand-in, not a proof: the type (RefCell<BufReader<&mut dyn Read>> "
               "plus raw-pointer copies) is outside Verus and beyond what CBMC can unwind.",
    level_note="Bounded as stated in coverage.native_bounded_standins; nothing is proved for all inputs. std::io::Cursor as a "
               "byte source is not compared.",
    explanation=MIX)

PROPS["C15"] = dict(
    level="other", claimed=True,
    level_text="Integer part of FRI completeness only: Kani contracts on the real position folding, layer-count and "
               "position-to-leaf-index functions (layer count and index map complete over their whole admissible domains; "
               "position folding bounded in list length).",
    level_note="NOT decided by this check: the folding identity of apply_drp (algebraic identity over symbolic field values, "
               "beyond the SAT back end) and acceptance of honest proofs end to end; prover reuse.",
    explanation=MIX)
PROPS["C16"] = dict(
    level="other", claimed=True,
    level_text="Assertion bookkeeping only: overlaps_with is equivalent to 'a common named step exists' for all pairs of "
               "well-formed assertions (bounded in trace length), and validate_trace_length / get_num_steps accept exactly the "
               "well-formed single and periodic assertions (all lengths).",
    level_note="NOT decided by this check: the zero sets of the transition and boundary divisors (field-valued), the value "
               "polynomial of BoundaryConstraint, sequence assertions' validation, set_num_transition_exemptions.",
    explanation=MIX)

PROPS["C11"] = dict(
    level="other", claimed=True,
    level_text="Frequency-domain MDS fast path only: for every state of canonical elements the 12x12 and 8x8 mds_multiply never "
               "overflow their i64/u64 intermediates and return canonical elements (Kani, full domain over all state words), and "
               "on scaled unit vectors they return the columns of the documented circulant matrices.",
    level_note="NOT decided by this check: linearity of the fast path (hence the full matrix product), S-box / inverse S-box / "
               "round constants against a reference, sponge padding of hash(), merge == hash of concatenation, merge_with_int "
               "injectivity, independence of hash_elements from representation, Blake3/SHA3 (external crates).",
    explanation=MIX)

PROPS["C05"] = dict(
    level="other", claimed=True,
    level_text="Function-local part of FRI soundness on the real verifier with doubles for channel, hasher and coin: "
               "the degree-truncation rule of FriVerifier::new, the remainder degree bound, and - for the zero-layer schedule - "
               "that acceptance implies the remainder is the committed one and agrees with the queried evaluation; the layer count "
               "(num_fri_layers) is proved for all schedules.",
    level_note="Bounded shapes (stated per obligation). NOT decided: folding consistency across layers (field-valued "
               "interpolation), anything probabilistic (distance from low degree), folding factors other than the ones exercised.",
    explanation=MIX)

PROPS["C04"] = dict(
    level="other", claimed=True,
    level_text="Function-local Fiat-Shamir contracts on the real channel code with doubles (Air, hasher, coin): every "
               "ProverChannel send/commit records the message in the proof and reseeds the coin with exactly that message; the seed "
               "is hash(context || public inputs); grinding uses the current coin and the smallest nonce; query positions come from "
               "draw_integers with that nonce; on the verifier side FriVerifier::new reseeds-then-draws per commitment in order. "
               "The coin's own state-transition contract is C19's.",
    level_note="NOT decided: the order of calls inside Prover::generate_proof and verifier::perform_verification (two long "
               "generic functions that need a real proof to execute) - a consistent reordering there is invisible to this check; "
               "auxiliary-segment randomness; the verifier's proof-of-work comparison.",
    explanation=MIX)
PROPS["C03"] = dict(
    level="other", claimed=True,
    level_text="Canonical decoding of proof components as Kani contracts on the real parsers: OodFrame (no ignored bytes in any of "
               "its three vectors, frame size fixed), Commitments (every byte consumed), Queries container, and the FRI remainder "
               "being bound to its commitment (acceptance implies hash(remainder) == last layer commitment).",
    level_note="Bounded shapes (stated per obligation). NOT decided: bit-flip closure of a whole proof, Queries::parse / "
               "FriProofLayer::parse leaf recomputation, authentication of openings in read_queried_trace_states / "
               "read_constraint_evaluations, substitutions that need the full verifier.",
    explanation=MIX)

PROPS["C20"] = dict(
    level="other", claimed=True,
    level_text="Bounded stand-in only (native execution of the real functions against a naive reference written in the check): "
               "every polynomial and batch-utility function agrees with its defining identity on the enumerated space. No "
               "deductive contract: the bodies are iterator / closure chains over generic field elements, which the installed "
               "Verus rejects, and equalities of field products are beyond CBMC.",
    level_note="Bounded as stated in coverage.native_bounded_standins; nothing is proved for all inputs. The field operations "
               "themselves are C07's / C08's.",
    explanation=MIX)

PROPS["C09"] = dict(
    level="other", claimed=True,
    level_text="Bounded stand-in only (native execution of the real transforms against direct evaluation written in the check): "
               "FFT evaluation / interpolation with offsets and blowups, degree inference, and the column-batched and segmented "
               "low-degree extension of matrices agree with direct polynomial evaluation on the enumerated space. No deductive "
               "contract: algebraic identities over symbolic field values are beyond CBMC, and the bodies are generic over field "
               "and batch size with iterator adapters the installed Verus rejects.",
    level_note="Bounded as stated in coverage.native_bounded_standins; nothing is proved for all sizes. The multi-threaded "
               "variants (`concurrent` feature) are not built.",
    explanation=MIX)

NOT_APPLICABLE.update({
    "C01": "whole-protocol completeness over all AIR programs: no per-function contract carries it (DESIGN.md 4.C01)",
    "C02": "cryptographic soundness is probabilistic and adversarial, not a safety property of any function (DESIGN.md 4.C02)",
    "C14": "neither Kani nor Verus can execute rayon; the suite is built without the `concurrent` feature (DESIGN.md 4.C14)",
    "C17": "needs polynomial-identity reasoning across evaluator, periodic table and boundary groups generic over a user Air (DESIGN.md 4.C17)",
})
