"""per-property claim texts (MANIFEST level_claimed / level_note, evidence explanation)"""
from registry import PROPS, NOT_APPLICABLE

MIX = ("Mixed check: obligations listed under coverage.unbounded_obligations are proofs for all inputs (loop-free Kani harnesses "
       "over full-domain symbolic inputs, Verus functions); those under coverage.bounded are bounded symbolic executions of the "
       "real code with the stated bound and are not counted in obligations/discharged.")

PROPS["C06"] = dict(
    level="other", claimed=True, verus=True,
    level_text='Verus (unit slicereaderv, bodies cut out of /repo): every SliceReader method for every slice, position and requested length up to usize::MAX - no overflow, no out-of-range index; Queries::parse, FriProofLayer::parse, FriProof::parse_remainder never overflow or index out of range for any content. Verus (unit oodv, body cut out of /repo, abstract element decoder and slice reader): OodFrame::parse for EVERY trace width, evaluation count, Lagrange frame size and byte content - it accepts exactly the canonical encodings (each of the three sections is fully consumed, the frame has exactly 2 rows of exactly the trace width, a Lagrange frame only with an auxiliary segment), returns the de-interleaved decoded rows, and cannot overflow or index out of range on any input. Totality contracts (never panics, never overflows, no out-of-bounds index, no unchecked allocation size) on the deserializers a proof passes through, decided by Kani on the real functions with fully symbolic header bytes (fixed-size headers for every byte string, variable-size payloads up to the stated bound), including the conjectured and the proven security estimate (libm results arbitrary). verify() end to end is covered by bounded native stand-ins only: every damaged version (bit flips, byte extremes, truncations, structured edits of every length-prefixed component, crafted option sets) of the proofs of two pipelines is parsed and verified without a panic.',
    level_note="Bounded stand-ins are listed under coverage.native_bounded_standins and are not proofs. Not decided: verify() for all byte strings; allocation proportionality beyond read_many's capacity. Panics raised by the example / test AIR's own Air::new on foreign trace shapes are user code and counted separately. Trusted: Kani/CBMC, the alloc::fmt::format stub (message text only).",
    explanation=MIX)
PROPS["C12"] = dict(
    level="other", claimed=True, verus=True,
    level_text="Verus (unit serdev, bodies cut out of /repo, abstract reader / writer / element type): ByteReader::read_many, ByteWriter::write_many and the Vec<T> (de)serializers for EVERY length and element type - read_many returns exactly `count` successive element decodings and consumes exactly their bytes, write_into appends the length prefix and the element encodings in order, and decoding what write_into appended returns the same vector with exactly the following bytes left (relative to the element-level and vint64 round trips); Verus (unit proofserdev, bodies cut out of /repo): the whole-Proof writer and reader compose the component codecs in the same order, and every proof whose number of trace-query sets equals its context's segment count round-trips exactly (relative to the component round trips). Kani: decode(encode(x)) == x, exact consumption, and 'constructor accepts => reader accepts' as Kani contracts on the real (de)serializers: complete for the size encoding, fixed-width integers, field elements, ProofOptions, FieldExtension and TraceInfo headers; bounded (stated per obligation) for containers, Context, OOD frame, tables and FRI proof parts. Whole-Proof round trips (bytes -> Proof -> bytes and equality of the decoded value) on every proof of the two native pipeline stand-ins; ReadAdapter as byte source through C13's differential stand-in.",
    level_note='Bounded stand-ins are listed under coverage.native_bounded_standins and are not proofs. Not decided: maps / sets / strings / options / arrays / tuples for all sizes (bounded stand-in serde_native); the component round trips of Queries / FriProof / Context for all sizes (bounded Kani, stand-ins). Trusted: Kani/CBMC, format stub.',
    explanation=MIX)
PROPS["C18"] = dict(
    level="other", claimed=True, verus=True,
    level_text='Verus (unit policyv, bodies cut out of /repo, named estimates): Proof::security_level passes (options, claimed modulus bits, trace length, collision resistance) to the conjectured resp. proven estimate in that order; AcceptableOptions::validate accepts exactly when the level of the requested kind reaches the minimum, resp. when the option set contains the options of the proof. get_conjectured_security equals the documented formula, without overflow, and is monotone, for every parameter combination a parsed context can carry (Kani, full domain); get_proven_security is total (no overflow / underflow / panic) for arbitrary libm results; num_modulus_bits is the bit length of the claimed modulus; AcceptableOptions::validate consults the right estimate and rejects exactly below the minimum (contract relative to Proof::security_level); VerifierChannel::new refuses with InconsistentBaseField every proof whose claimed modulus (7, 8, 9 or 14 symbolic bytes) is not byte for byte the modulus of the base field of the computation.',
    level_note='Not decided: the numeric value and monotonicity of get_proven_security (f64 log2/powf/sqrt have no faithful model in CBMC; they are stubbed to arbitrary floats); the closure of the OptionSet arm of validate is replaced by a proved loop in the Verus unit (stated rewrite) and exercised as written by the stand-in verifier_side_native.',
    explanation=MIX)
PROPS["C19"] = dict(
    level="other", claimed=True, verus=True,
    level_text="Verus (unit coinv, bodies cut out of /repo, hasher abstract - uninterpreted merge / merge_with_int / hash_elements): "
               "the state machine of DefaultRandomCoin for every hasher, seed, counter and nonce and for EVERY requested count: new, "
               "reseed, next, check_leading_zeros; draw_integers returns exactly n values below the domain size, value i derived from "
               "merge_with_int(seed', i + 1), and leaves counter == n; draw returns the first accepted of at most 1000 candidates and "
               "advances the counter by the candidates tried. Kani on the real code with a stub hasher: the same contracts bit-precisely "
               "(byte slicing, little-endian conversion, masks) with the count bounded, with counterexamples; validity of drawn elements "
               "(from_random_bytes of the three base fields, and of the quadratic / cubic extensions of the 64-bit field, accepts exactly "
               "canonical encodings); the integer encoding absorbed by merge_with_int of the three Rescue hashers is injective; hash_elements of the three Rescue hashers - what turns the seed into the initial coin state - equals the documented sponge with its length / padding domain separation (shared with C11; bounded in list length), so that seeds of different length or content are absorbed differently; for the byte-oriented hashers (Blake3_256 / Blake3_192 / Sha3_256) merge_with_int - the nonce / counter absorption - is compared with hash(seed || le64(value)) by the stand-in hash_native (shared with C11).",
    level_note="The Kani harnesses are bounded in the requested count of draw_integers (<= 3) and the rejection loop of draw (<= 2 "
               "rejections); the Verus unit is not, but replaces three byte-slicing expressions by named prelude functions (listed "
               "under coverage.extraction). Trusted: determinism of safe Rust. Extension-field from_random_bytes of the 62- and 128-bit "
               "fields is not under contract.",
    explanation=MIX)

PROPS["C10"] = dict(
    level="other", claimed=True, verus=True,
    level_text='Verus (bodies cut out of /repo, abstract hash): for every well-formed tree of 2^d leaves (1 <= d < 63) and every index, prove returns Err exactly for out-of-range indices and otherwise the authentication path; verify refuses paths of fewer than 2 or more than 64 entries and indices beyond the tree the path describes, and otherwise accepts exactly when the value folded from the path along the index bits equals the root; the path returned by prove is accepted against root(); MerkleTree::new / build_merkle_nodes return exactly such a well-formed tree over the given leaves for every power-of-two leaf count (Ok iff at least 2 leaves and a power of two), the raw-pointer reinterpretation of digest slices as pairs being modelled by two specified external functions. Kani (bounded): root construction and single openings on 8 symbolic leaves, with counterexamples. Native bounded stand-in on the real batch code: every position subset of trees up to 16 leaves in three orders verifies, decompresses to the single paths and re-compresses; every single-element, shape (extra / missing leaf, node, node vector), depth and position mutation is refused without a panic (Blake3_256); for the other byte-oriented hashers the two-to-one function the tree code is generic in is compared with its definition by the stand-in hash_native (shared with C11).',
    level_note='BTreeMap-based batch code does not finish in CBMC even for concrete arguments, hence the native stand-in (bounded, not a proof). For all tree sizes construction and single openings are proved (the unsafe pairwise reinterpretation inside build_merkle_nodes is an assumption there; Kani executes the real pointer code on 8 leaves); batch openings rest on the stand-in; concurrent tree construction is not covered.',
    explanation=MIX)

PROPS["C13"] = dict(
    level="other", claimed=True, verus=True,
    technique="contract-based deductive verification for the reference side (Verus on the extracted bodies of every SliceReader method: it is the sequential reader of its byte string, for every slice, position and requested length); the streaming side (ReadAdapter) is a bounded stand-in only: the real functions executed natively over an enumerated space and compared with SliceReader - nothing about ReadAdapter is counted as proved",
    level_text="Verus (unit slicereaderv, bodies cut out of /repo): SliceReader::{new, read_u8, peek_u8, read_slice, read_array, check_eor, has_more_bytes} - an operation asking for k bytes returns Ok exactly when k bytes are left, then returns bytes pos .. pos + k and advances by k, otherwise UnexpectedEOF with the position unchanged; no overflow or out-of-range index for any length up to usize::MAX. "
               "Bounded differential execution of the real ReadAdapter against SliceReader (the reference semantics): every "
               "operation sequence up to length 3 on short streams under several chunkings, long seeded sequences across the "
               "256-byte internal buffer, and unsatisfiable lengths / counts near usize::MAX after consumed prefixes. The ReadAdapter part is a bounded stand-in, not a proof: the type (RefCell<BufReader<&mut dyn Read>> "
               "plus raw-pointer copies) is outside Verus and beyond what CBMC can unwind.",
    level_note="Bounded as stated in coverage.native_bounded_standins; for ReadAdapter nothing is proved for all inputs. std::io::Cursor as a "
               "byte source is not compared.",
    explanation=MIX)

PROPS["C15"] = dict(
    level="other", claimed=True, verus=True,
    level_text='Verus (body cut out of /repo): fold_positions returns, for every list of positions and every domain, exactly the set of folded positions - every image present, nothing else, no repetition, all below the folded domain size. Kani contracts on the rest of the integer part (layer count and position-to-leaf-index map complete over their admissible domains; position folding again, bounded in list length, with counterexamples). Native bounded stand-in for whole FRI runs on the real prover and verifier: honest proofs of the full parameter grid are accepted after serialization (reused prover, repeated positions, base fields, quadratic and cubic extensions, layers above 64 KiB).',
    level_note='The folding identity of apply_drp for symbolic field values is beyond the SAT back end; it is exercised, not proved. Bounded stand-ins are listed under coverage.native_bounded_standins.',
    explanation=MIX)
PROPS["C16"] = dict(
    level="other", claimed=True, verus=True,
    level_text="Verus (unit divisorv): ConstraintDivisor::from_transition is x^n - 1 over the exemption points g^(n-k) .. g^(n-1), and on the trace domain it vanishes on exactly the first n - k steps (theorem_transition_zero_set, relative to the order of g). Verus (body cut out of /repo): overlaps_with is true exactly when the two assertions name a common step of the same column, for every power-of-two trace length and all well-formed single / periodic / sequence shapes; Verus (unit divisorv, bodies cut out of /repo, abstract field): ConstraintDivisor::from_assertion returns x^k - g^(k * first_step) for every trace length and validated assertion, evaluate_at is the in-order product of the numerator terms over the exemption product, and on the trace domain that numerator vanishes at step i exactly when i is an asserted step (relative to 'g has order exactly n', which C07 proves for the three fields); Kani: overlaps_with with a counterexample for trace lengths <= 32; validate_trace_length / get_num_steps / the single, periodic and sequence constructors accept exactly the well-formed assertions; ConstraintDivisor numerators, exemptions and evaluate_at on bounded domains. Native bounded stand-in for BoundaryConstraints::new (BTreeMap / BTreeSet code): overlapping assertions are refused in every listing order; group divisors vanish exactly on the asserted steps and every constraint compares its cell with the asserted value, for all ordered pairs of assertions on trace lengths 8, 16, 32.",
    level_note='Bounded (stated per obligation / stand-in). Not decided: value polynomials for all domain sizes. The map / collect over the exemption steps in from_transition is an assumed std contract. set_num_transition_exemptions is under contract in unit contextv (C17).',
    explanation=MIX)

PROPS["C11"] = dict(
    level="other", claimed=True, verus=True,
    level_text="Kani on the real code with the Rescue permutation replaced by a double (the clauses hold for every permutation): hash_elements of Rp64_256 / Rp62_248 / RpJive64_256 equals the documented sponge written independently in the harness for element lists around the rate boundaries and does not depend on base-versus-extension typing; hash(bytes) == hash_elements(encode(bytes)) with the documented padding; merge == hash of the concatenation; merge_with_int's absorbed encoding is injective. Frequency-domain MDS fast path (12x12, 8x8), Verus on the bodies cut out of /repo (FFT helpers, the three frequency blocks, mds_multiply_freq, mds_multiply): for EVERY state each output lane is the canonical representative of the corresponding row of the hasher's MDS constant times the state modulo M, with no intermediate overflow; Kani: no overflow and canonical results for every state, columns of the documented circulant on unit vectors (with counterexamples).",
    level_note='Bounded in input length (stated per obligation). S-box / inverse S-box chains and constant additions are compared with an independent reference only by the bounded stand-in rescue_native (Rp64_256, RpJive64_256; Rp62_248 does not expose its permutation); not decided: that the MDS constant is an MDS matrix; Blake3 / SHA3 wrappers (external crates).',
    explanation=MIX)

PROPS["C05"] = dict(
    level="other", claimed=True, verus=True,
    level_text='Verus (units oodv, friv, bodies cut out of /repo): FriProofLayer::parse and FriProof::parse_remainder decode canonically for every byte content; get_query_values picks, for every list of positions, the cell position / row_length of the row opened for position mod row_length. Verus (unit friverifv, body cut out of /repo, abstract channel / coin / field): FriVerifier::new for EVERY number of layer commitments - a list whose length is not the number of folding steps plus one is refused before the coin is touched, otherwise the coin sees exactly reseed(c_0), draw, reseed(c_1), draw, ..., the challenge stored for layer i is the one drawn after c_i, and DegreeTruncation is returned exactly at the first non-final depth whose running degree bound plus one is not a multiple of the folding factor. Kani on the real FRI verifier with doubles for channel, hasher and coin: the degree-truncation rule of FriVerifier::new, reseed-then-draw per layer commitment, the remainder degree bound, remainder bound to its commitment, missing commitment refused; num_fri_layers for all schedules. Native bounded stand-in: polynomials above the claimed degree bound are refused, a flipped proof bit is refused, claimed evaluations that differ from the committed layer at a single queried position are refused, read_layer_queries returns values iff verify_batch accepts the opening.',
    level_note='Bounded shapes (stated per obligation / stand-in). Not decided: folding consistency for symbolic field values; anything probabilistic (distance from low degree).',
    explanation=MIX)

PROPS["C04"] = dict(
    level="other", claimed=True, verus=True,
    level_text="Verus (unit friverifv, body cut out of /repo, abstract channel / coin / field): FriVerifier::new for EVERY number of layer commitments - a list whose length is not the number of folding steps plus one is refused before the coin is touched, otherwise the coin sees exactly reseed(c_0), draw, reseed(c_1), draw, ..., the challenge stored for layer i is the one drawn after c_i, and DegreeTruncation is returned exactly at the first non-final depth whose running degree bound plus one is not a multiple of the folding factor. Kani on the real channel code with doubles (Air, hasher, coin): every ProverChannel send / commit records the message in the proof and reseeds the coin with exactly that message; the seed is hash(context || public inputs); query positions come from draw_integers with the ground nonce; FriVerifier::new reseeds-then-draws per commitment in order; the remainder polynomial carried in the proof is the one whose commitment was absorbed (also for layer-less proofs); the seed elements bind the proof context (contexts that differ only in their trace metadata are absorbed differently; Kani for 1 versus 2 symbolic bytes, and the stand-in context_native: no collision among 2.2 million metadata strings of up to 16 bytes nor among contexts differing in width, length or any option); Verus (unit coinv): the coin's state machine for every hasher; the integer absorbed by merge_with_int (grinding nonce) is injective for the three Rescue hashers. Native bounded stand-in: the real prover and verifier run with a recording coin and both operation sequences are compared with the transcript the protocol requires (absorbed values recomputed from the proof bytes, GKR randomness before auxiliary randomness, every challenge after the messages that precede it, identical challenge values), on single-segment, auxiliary and Lagrange-kernel traces over three extension degrees and two hashers.",
    level_note="Prover::generate_proof and perform_verification are generic over user types and out of both verifiers' reach: their order of coin operations is observed on the stand-in's grid, not proved. One asymmetry is tolerated: the verifier draws an unused folding challenge after the FRI remainder commitment (DESIGN.md 9.1).",
    explanation=MIX)
PROPS["C03"] = dict(
    level="other", claimed=True, verus=True,
    level_text='Verus (unit oodv, bodies cut out of /repo): Queries::parse, FriProofLayer::parse and FriProof::parse_remainder are canonical decoders for EVERY byte content - exact lengths, decodable elements, a batch Merkle proof for the row / query hashes, nothing trailing. Verus (unit oodv, body cut out of /repo, abstract element decoder and slice reader): OodFrame::parse for EVERY trace width, evaluation count, Lagrange frame size and byte content - it accepts exactly the canonical encodings (each of the three sections is fully consumed, the frame has exactly 2 rows of exactly the trace width, a Lagrange frame only with an auxiliary segment), returns the de-interleaved decoded rows, and cannot overflow or index out of range on any input. Kani: canonical decoding of proof components on the real parsers (OodFrame: no ignored bytes, frame size fixed; Commitments: every byte consumed; Queries container; Table); the FRI remainder is bound to its commitment. Native bounded stand-ins: every single-bit flip (every 5th bit in the quick tier), byte extreme and truncation of small proofs of two pipelines, and structured edits of every length-prefixed component (shortened, lengthened, emptied; FRI layers removed / duplicated / swapped; optional GKR proof added / removed / resized; counts off by one), are refused; every single-element and shape mutation of Merkle batch openings is refused.',
    level_note='Bounded (stated per obligation / stand-in). Not decided: adaptive substitutions that need the query positions for components other than the FRI remainder; proofs of all sizes. The FRI partition count is layout-only metadata and excluded, as the property states.',
    explanation=MIX)

PROPS["C20"] = dict(
    level="other", claimed=True, verus=True,
    level_text="Verus, bodies cut out of /repo, against an abstract coefficient structure (uninterpreted +, -, *; no axiom used, so "
               "the result covers base and extension fields): polynom::add / sub / mul / mul_by_scalar return, for every length and "
               "every coefficient value, exactly the coefficient-wise sum / difference, the schoolbook convolution and the scaled "
               "coefficients; degree_of returns the index of the last non-zero coefficient; fill_power_series (behind get_power_series*) "
               "writes start * base^i. polynom::div (long division), against five field laws stated as assumptions (additive "
               "monoid laws, x - y + y == x, y * (x / y) == x): quotient * divisor + remainder == dividend coefficient by coefficient "
               "with the remainder below the divisor degree, for every dividend and every non-zero divisor. poly_from_roots / fill_zero_roots: the coefficients of the product of the (x - root) factors for every list of roots. Everything else - eval, "
               "synthetic division, interpolation, in-place accumulation, batch inversion - is written with iterator adapters / mem::swap / macros that the installed Verus "
               "rejects and rests on the bounded stand-in (native execution against a naive reference written in the check).",
    level_note="The stand-in part is bounded as stated in coverage.native_bounded_standins and proves nothing. That E's operations are "
               "those of a field is C07's / C08's. polynom::mul is proved for non-empty operands (it underflows on two empty ones).",
    explanation=MIX)

PROPS["C09"] = dict(
    level="other", claimed=True, verus=True,
    level_text="Verus (unit fftcore, bodies cut out of /repo, abstract elements and twiddles, no size bound): (1) the butterfly network "
               "fft_in_place - the core of every evaluate_poly* / interpolate_poly* / segment LDE - with its (count, stride, offset) "
               "batching and MAX_LOOP recursion switch, and the slice butterflies it calls, compute on each interleaved subsequence the textbook radix-2 "
               "decimation-in-time recursion (outputs in bit-reversed order) and touch nothing else, for every power-of-two length, "
               "every element value and every twiddle table; (2) that recursion IS the discrete Fourier transform: with twiddles w^bitrev(k) and "
               "w^(n/2) == -1 output p equals sum_i s[i] * w^(i * bitrev p), for every power-of-two size, relative to the module laws of the "
               "coefficient structure stated as a hypothesis; (3) get_twiddles / get_inv_twiddles build exactly that table for the root returned by "
               "get_root_of_unity (resp. its inverse) and their runtime assertions never fire under the documented pre-condition; (4) hence evaluate_poly returns at "
               "position t the polynomial evaluated at w^t, in natural order, and interpolate_poly returns (1/n) * sum_i v[i] * w^(-i*t) - the inverse-transform formula. "
               "Verus (unit fftv): the in-place permutation FftInputs::permute moves the element at the bit-reversed position to each position. "
               "Kani (complete, loop-free, every size 2^0..2^63): permute_index is the bit reversal (bitwise and as the recurrence on the lowest bit), "
               "an involution and injective. Offsets, blowups, degree inference and the column-batched / segmented "
               "LDE rest on a bounded stand-in (native execution of the real code against direct evaluation written in the check).",
    level_note="Not decided deductively: that the inverse-transform formula inverts evaluation (orthogonality of the roots of unity over a field), "
               "the offset / blowup wrappers (closure / chunks_mut / zip bodies), shift_by (iter_mut body, assumed), get_power_series (macro body, assumed; worker proved in polyv), "
               "the [[E; N]] butterflies. Bounded "
               "as stated in coverage.native_bounded_standins. The multi-threaded variants (`concurrent` feature) are not built.",
    explanation=MIX)

PROPS["C17"] = dict(
    level="other", claimed=True, verus=True,
    technique="contract-based deductive verification for the integer-level building blocks within reach (Verus on the extracted bodies of TransitionConstraints::new, ConstraintDivisor::evaluate_at, AirContext::num_constraint_composition_columns and TransitionConstraintDegree::get_evaluation_degree); everything else - the evaluators, the periodic table, boundary groups, the composition polynomial itself - is a bounded stand-in only: the real functions executed natively over an enumerated space and compared with the definition written in the check",
    level_text="Verus (unit divisorv, bodies cut out of /repo): TransitionConstraints::new hands the composition coefficients out in order (main constraints first, then auxiliary), keeps the context degrees and builds the divisor of the context exemption count, for every number of constraints; ConstraintDivisor::evaluate_at is the in-order product of the numerator terms over the exemption product; Verus (unit contextv): the number of composition columns is the least c >= 1 with c * n >= d + 1 for d the degree of the quotient by the transition divisor, for every trace length, degree list and exemption count (no coefficient of the composition polynomial is cut off, no column is surplus). Everything else is a bounded stand-in (native execution of the real constraint evaluator and composition-polynomial code against "
               "the definition computed directly in the check from the trace polynomials, the constraint formulas, the documented "
               "divisors and naively interpolated value polynomials). No deductive contract: the evaluator, periodic table and "
               "boundary groups are generic over a user Air with iterator-heavy bodies, and the statement is an identity over "
               "field values.",
    level_note="The stand-in lagrange_native (single-segment, auxiliary and Lagrange-kernel traces with LDE blowups above the constraint-evaluation blowup; honest proofs must be produced and accepted) also serves C17: it is where the Lagrange kernel constraints are exercised. Bounded as stated in coverage.native_bounded_standins: one AIR per stand-in. The verifier's side (its evaluation from an opened "
               "frame agrees with the committed polynomial) is observed through the real prover and verifier on a second AIR with periodic "
               "columns of four cycle lengths and shared boundary-constraint groups (verifier_side_native). "
               "Auxiliary segments and Lagrange kernel constraints are exercised only by C04's pipelines.",
    explanation=MIX)

NOT_APPLICABLE.update({
    "C01": "whole-protocol completeness over all AIR programs: no per-function contract carries it (DESIGN.md 4.C01)",
    "C02": "cryptographic soundness is probabilistic and adversarial, not a safety property of any function (DESIGN.md 4.C02)",
    "C14": "neither Kani nor Verus can execute rayon; the suite is built without the `concurrent` feature (DESIGN.md 4.C14)",
})
