from registry import H, kani_unit, verus_unit, native_unit, PROPS, UNITS

DBLP = "doubles: AirDouble (1 column, 1 constraint, 1 assertion), StubHasher, RecordingCoin (state = running digest of absorbed operations); parametricity of ProverChannel in Air, hasher and coin"
kani_unit("prover_channel", "winter-prover", "prover/src/channel.rs", "kani/prover_channel.rs", "channel", [
    H("prover_channel_new_contract", ["C04"], ["ProverChannel::new"],
      "the coin is seeded with hash(context.to_elements() || public input elements); nothing absorbed or drawn yet; empty commitments",
      bounded="trace 1x8, two symbolic public-input elements"),
    H("prover_channel_commit_contract", ["C04"], ["ProverChannel::commit_trace", "ProverChannel::commit_constraints", "ProverChannel::commit_fri_layer", "ProverChannel::draw_fri_alpha", "ProverChannel::get_ood_point"],
      "forall roots: each commit appends exactly that root to the proof's commitments and reseeds the coin with exactly that root, once, in call order; challenges are drawn from the coin state reached after the absorptions"),
    H("prover_channel_ood_contract", ["C04"], ["ProverChannel::send_ood_trace_states", "ProverChannel::send_ood_constraint_evaluations", "OodFrame::set_trace_states", "OodFrame::set_constraint_evaluations"],
      "the coin absorbs hash_elements of exactly the elements written into the proof's OOD frame (which decodes back to them)",
      bounded="1 column, 1 evaluation, no Lagrange frame; element values symbolic", tier="thorough"),
    H("prover_channel_queries_bounded", ["C04", "C19"], ["ProverChannel::grind_query_seed", "ProverChannel::get_query_positions"],
      "pow_nonce is the least nonce >= 1 whose check_leading_zeros under the current coin reaches the grinding factor (grinding does not advance the coin); positions == sorted, de-duplicated draw_integers(num_queries, lde_domain_size, pow_nonce)",
      bounded="2 queries, LDE domain 16, grinding factor 1, one of the first three nonces succeeds", timeout=600, tier="thorough"),
    H("prover_channel_canary_must_fail", ["C04"], [], "false claim: commit_trace leaves the coin unchanged", canary=True),
])
for u in UNITS:
    if u["unit"] == "prover_channel":
        u["trusted"] = [DBLP]

native_unit("stark_native", "examples", "examples", "native/stark_bounded.rs", ["C04", "C03", "C06", "C12", "C17"],
            ["Prover::generate_proof", "verifier::verify / perform_verification", "Proof::to_bytes / from_bytes", "VerifierChannel::new", "ProverChannel"],
            "every honest proof of the grid is accepted after a serialization round trip that leaves it unchanged (prover and verifier derive the same challenges); proofs are refused for other public inputs; every tested single-bit flip of a serialized proof is refused and neither parsing nor verification panics",
            "NATIVE EXECUTION, not a proof: 6 example computations (single- and multi-segment) x 22 option sets (2 extensions x 5 FRI schedules x grinding {0, 9} + 2) over the 128-bit field; bit flips on 2 small proofs x 4 option sets: every 5th bit (quick) / every bit (thorough)",
            timeout=2400)

native_unit("lagrange_native", "winterfell", "winterfell", "native/lagrange_bounded.rs", ["C04", "C03", "C06", "C12", "C17"],
            ["Prover::generate_proof (multi-segment + Lagrange kernel / GKR path)", "verifier::verify / perform_verification", "Proof::to_bytes / from_bytes", "VerifierChannel::new", "ProverChannel", "GkrVerifier plumbing", "LagrangeKernel constraints"],
            "with a Lagrange-kernel column, 1..3 auxiliary random elements and an absorbed public input: every honest proof of the grid is accepted after a serialization round trip that leaves it unchanged (prover and verifier draw GKR randomness, auxiliary randomness and all later challenges in the same order); proofs are refused for another public input; every tested damaged proof (bit flips, byte extremes, truncations) is refused and nothing panics; both sides' recorded coin operations equal the required transcript (absorbed values read back from the proof, identical challenge values); proofs crafted by a malicious prover for query counts at and beyond the LDE domain size are answered without a panic; structured damage (every length-prefixed component of commitments / queries / OOD frame / FRI proof shortened, lengthened, emptied; FRI layers removed, duplicated, swapped; GKR proof added, removed, resized; Lagrange frame row count changed; unique-query count off by one with and without extra rows) is refused without a panic",
            "NATIVE EXECUTION, not a proof: 64-bit field x {no, quadratic, cubic} extension x 5 (trace length, FRI schedule) pairs x aux rands {1,2,3} x 2 (queries, blowup, grinding) sets x {Blake3_256, Rp64_256}; 3 trace shapes (single-segment, auxiliary, auxiliary + Lagrange kernel); damage on the first 10 resp. 2 configurations; 36 crafted option sets: every 5th bit (quick) / every bit (thorough)",
            timeout=2400)

native_unit("composition_native", "winter-prover", "prover", "native/composition_bounded.rs", ["C17"],
            ["DefaultConstraintEvaluator::{new, evaluate}", "evaluator::boundary (small and large value polynomials)", "evaluator::periodic_table", "ConstraintEvaluationTable::combine", "CompositionPoly::{new, evaluate_at}", "Air::get_boundary_constraints / get_transition_constraints", "StarkDomain::new"],
            "the composition polynomial evaluations produced by the real evaluator equal, at the points of the constraint evaluation domain, the random linear combination of every transition constraint over the transition divisor plus every boundary constraint over its divisor computed directly from the trace polynomials; the committed columns recombine to the same value at out-of-domain points",
            "NATIVE EXECUTION, not a proof: one AIR (3 columns, 3 constraints with periodic columns of cycle 2 / 4 / 8, single + periodic + short and long sequence assertions with non-zero first steps) x trace lengths 16, 64 (every domain point), 512 (every 8th point) x LDE blowup 8, 16 (constraint blowup 4) x f128, f128 quadratic, f64, f64 quadratic, f64 cubic; 4 out-of-domain points each; built without debug assertions (the prover's debug-only degree validation refuses periodic trace columns), with overflow checks",
            timeout=2400, debug_assertions=False)

native_unit("verifier_side_native", "winterfell", "winterfell", "native/verifier_side_bounded.rs", ["C17", "C16", "C06", "C18"],
            ["AcceptableOptions::validate (all three arms)", "verifier::evaluate_constraints (periodic columns at the out-of-domain point, boundary-constraint groups)", "BoundaryConstraintGroup::evaluate_at", "verifier::perform_verification (OOD consistency check)", "Prover::generate_proof", "evaluator::boundary / periodic_table"],
            "acceptance policy: a proof is accepted under MinConjecturedSecurity / MinProvenSecurity(m) exactly when its own level of that kind is >= m (m around the level, 0, u32::MAX) and under OptionSet(s) exactly when s contains its options (six single-parameter variants, both orders, empty set); on an AIR with periodic columns of four different cycle lengths (2, 8, 4, trace length), single / periodic / sequence assertions with non-zero first steps and a periodic and a sequence assertion sharing one boundary-constraint group: the verifier's evaluation of the composition at the out-of-domain point agrees with the prover's committed polynomial (every honest proof is accepted after a serialization round trip), and every boundary constraint is enforced (a proof is refused when any single asserted value of the public inputs is changed); a proof whose context claims any other field modulus (lengths 0..254 bytes, the real modulus truncated or zero-extended, one flipped bit) is refused with an error - no panic, no acceptance",
            "NATIVE EXECUTION, not a proof: one AIR (4 columns, 4 constraints, 7 assertions) x trace lengths 16, 64, 128 x LDE blowup 8, 16 x f128, f128 quadratic, f64, f64 quadratic, f64 cubic; built without debug assertions (the prover's debug-only degree validation refuses periodic trace columns), with overflow checks",
            timeout=2400, debug_assertions=False)


native_unit("coeff_native", "winterfell", "winterfell", "native/coeff_bounded.rs", ["C04"],
            ["Air::get_constraint_composition_coefficients", "Air::get_deep_composition_coefficients"],
            "coefficient number i of the documented order is the i-th element a second coin with the same state yields (every coefficient a fresh, successive draw), and afterwards both coins are in the same state",
            "NATIVE EXECUTION, not a proof: trace lengths 8 .. 1024 x 5 sets of main constraint degrees (1 .. 8 composition columns) x 1, 2, 4 main assertions x single-segment and 4 multi-segment shapes (with and without a Lagrange kernel column) x no / quadratic / cubic extension of the 64-bit field x Blake3_256 and Rp64_256",
            timeout=900)
