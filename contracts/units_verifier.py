from registry import H, kani_unit, verus_unit, PROPS, UNITS

kani_unit("verifier_lib", "winter-verifier", "verifier/src/lib.rs", "kani/verifier_lib.rs", "", [
    H("verifier_policy_min_conjectured_contract", ["C18"], ["AcceptableOptions::validate"],
      "forall option sets (queries, grinding symbolic), minimum m: Err(InsufficientConjecturedSecurity(m, level)) iff security_level(conjectured) < m"),
    H("verifier_policy_min_proven_contract", ["C18"], ["AcceptableOptions::validate"],
      "forall minimum m: MinProvenSecurity is decided by security_level(proven) and MinConjecturedSecurity by security_level(conjectured) (security_level abstracted by a stub returning two distinct constants: the contract is relative to it)"),
    H("verifier_lib_canary_must_fail", ["C18"], [], "false claim: every minimum is met", canary=True),
])
for u in UNITS:
    if u["unit"] == "verifier_lib":
        u["modpath"] = "verif_kani"

kani_unit("verifier_channel", "winter-verifier", "verifier/src/channel.rs", "kani/verifier_channel.rs", "channel", [
    H("verifier_channel_claimed_field_len%d_contract" % L, ["C18"], ["VerifierChannel::new (base-field consistency check)"],
      "forall claimed moduli of %d bytes: Err(InconsistentBaseField) unless the claimed bytes are exactly the little-endian modulus of the computation's base field" % L,
      timeout=900)
    for L in (8, 7, 9, 14)
] + [
    H("verifier_channel_honest_field_contract", ["C18"], ["VerifierChannel::new (base-field consistency check)"],
      "a proof claiming the computation's own modulus is not refused with InconsistentBaseField", timeout=900),
    H("verifier_channel_canary_must_fail", ["C18"], [], "false claim: the field check never fires", canary=True),
])


verus_unit("policyv", "policyv", ["C18"], [
    "Proof::security_level (the conjectured resp. proven estimate of (options, claimed modulus bit length, trace length, collision resistance of the hasher) - in that argument order)",
    "AcceptableOptions::validate (all three arms: a minimum level is met exactly when the proof's level of that kind reaches it, the error carries (minimum, level); an option set accepts exactly the proofs whose options it contains)"])
