from registry import H, kani_unit, verus_unit, native_unit, PROPS, UNITS

F64 = "math/src/field/f64/mod.rs"
kani_unit("f64", "winter-math", F64, "kani/math_f64.rs", "field::f64", [
    H("f64_mont_red_cst_contract", ["C07"], ["f64::mont_red_cst"],
      "forall x < M*2^64: r < M and r*2^64 == x (mod M) [witness form]"),
    H("f64_mont_to_int_contract", ["C07"], ["f64::mont_to_int"],
      "forall x: u64: r < M, r*2^64 == x (mod M), r == mont_red_cst(x)"),
    H("f64_mont_to_int_injective", ["C07"], ["f64::mont_to_int"],
      "forall a,b < M: mont_to_int(a) == mont_to_int(b) ==> a == b", timeout=900),
    H("f64_new_contract", ["C07"], ["f64::BaseElement::new", "f64::as_int"],
      "forall v: u64: new(v).0 < M and as_int(new(v)) == v mod M"),
    H("f64_from_small_ints_contract", ["C07"], ["f64::From<u8|u16|u32|bool>"],
      "from(v) is canonical and denotes v"),
    H("f64_try_from_ints_contract", ["C07"], ["f64::TryFrom<u64|u128|[u8;8]>"],
      "Ok(e) iff v < M, then as_int(e) == v and e canonical"),
    H("f64_try_from_slice_contract", ["C07", "C19"], ["f64::TryFrom<&[u8]>", "f64::Randomizable::from_random_bytes"],
      "Ok/Some iff len == 8 and le(bytes) < M; element canonical and denotes le(bytes)"),
    H("f64_ext_from_random_bytes_contract", ["C19", "C08"], ["QuadExtension<f64>::from_random_bytes", "CubeExtension<f64>::from_random_bytes", "TryFrom<&[u8]> for the extensions"],
      "forall byte strings up to 26 bytes: Some exactly when the length is the element size (16 / 24) and every 8-byte coordinate is a canonical word; the decoded coordinates are canonical"),
    H("f64_into_ints_contract", ["C07"], ["f64::From<BaseElement> for u64|u128", "f64::TryFrom<BaseElement> for u8|u16|u32|bool"],
      "conversion returns as_int when it fits, Err otherwise"),
    H("f64_add_contract", ["C07", "C08"], ["f64::Add::add", "f64::AddAssign"],
      "forall a,b < M: r < M, r == a+b mod M, val(r) == val(a)+val(b) mod M"),
    H("f64_sub_contract", ["C07", "C08"], ["f64::Sub::sub", "f64::SubAssign"],
      "forall a,b < M: r < M, r == a-b mod M, val(r) == val(a)-val(b) mod M"),
    H("f64_neg_contract", ["C07", "C08"], ["f64::Neg::neg"], "forall a < M: r < M, r == -a mod M, val(r) == -val(a) mod M"),
    H("f64_double_contract", ["C07", "C08"], ["f64::double"], "forall a < M: r < M, r == 2a mod M, val(r) == 2 val(a) mod M"),
    H("f64_constants_contract", ["C07"], ["f64::MODULUS", "f64::GENERATOR", "f64::TWO_ADICITY", "f64::R2", "f64::get_modulus_le_bytes"],
      "published constants equal their documented values; R2 == 2^128 mod M; M-1 == 2^32 * odd"),
    H("f64_mul_small_contract", ["C07"], ["f64::mul_small"],
      "forall a < M, k: u32: r.0 == a.0*k (mod M) [witness] and r.0 < M", timeout=600),
    H("f64_equals_contract", ["C07"], ["f64::equals"], "equals(a,b) == (a==b ? 2^64-1 : 0) forall u64 pairs"),
    H("f64_eq_contract", ["C07", "C08"], ["f64::PartialEq::eq"], "forall a,b < M: (a == b) <=> same raw word <=> same residue", timeout=900),
    H("f64_serde_contract", ["C07", "C12"], ["f64::Serializable::write_into", "f64::Deserializable::read_from"],
      "write_into emits le(as_int) (8 bytes); read_from(write_into(a)) == a and consumes exactly 8 bytes"),
    H("f64_read_from_contract", ["C07", "C12", "C06", "C19"], ["f64::Deserializable::read_from"],
      "forall byte strings of length <= 9: Ok(e) iff >= 8 bytes and le < M; e canonical, denotes le; exactly 8 bytes consumed; never panics"),
    H("f64_as_bytes_contract", ["C07"], ["f64::AsBytes::as_bytes", "f64::elements_as_bytes"],
      "as_bytes/elements_as_bytes expose the 8-byte raw words (pointer checks on)"),
    H("f64_ext2_frobenius_contract", ["C08", "C07"], ["f64::ExtensibleField<2>::frobenius"],
      "forall x0, x1: frobenius([x0, x1]) == [x0 + x1, -x1] with valid representatives; it is an involution; it fixes exactly the base field"),
    H("f64_canary_must_fail", ["C07", "C08"], [], "false claim: a+b == a-b", canary=True),
])

kani_unit("f62", "winter-math", "math/src/field/f62/mod.rs", "kani/math_f62.rs", "field::f62", [
    H("f62_constants_contract", ["C07"], ["f62::M", "f62::U", "f62::TWO_ADICITY", "f62::get_modulus_le_bytes"],
      "M == 2^62 - 111*2^39 + 1; U*M == -1 mod 2^64; M-1 == 2^39 * odd; published constants"),
    H("f62_add_contract", ["C07", "C08"], ["f62::add", "f62::Add::add", "f62::AddAssign"],
      "forall a,b < 2M: r < 2M, r == a+b-kM (k<=3), residue(r) == residue(a)+residue(b) mod M"),
    H("f62_sub_contract", ["C07", "C08"], ["f62::sub", "f62::Sub::sub", "f62::SubAssign"],
      "forall a,b < 2M: r < 2M, residue(r) == residue(a)-residue(b) mod M"),
    H("f62_neg_contract", ["C07", "C08"], ["f62::Neg::neg"], "forall a < 2M: r < 2M, residue(r) == -residue(a) mod M"),
    H("f62_double_contract", ["C07", "C08"], ["f62::double"], "forall a < 2M: r < 2M, residue(r) == 2 residue(a) mod M"),
    H("f62_normalize_eq_contract", ["C07", "C08"], ["f62::normalize", "f62::PartialEq::eq"],
      "normalize returns the representative < M; a == b <=> same residue"),
    H("f62_try_from_contract", ["C07"], ["f62::TryFrom<u64|u128|[u8;8]>"], "Ok iff v < M; representative < 2M"),
    H("f62_try_from_slice_contract", ["C07", "C19"], ["f62::TryFrom<&[u8]>", "f62::Randomizable::from_random_bytes"],
      "Ok/Some iff len == 8 and le(bytes) < M; representative < 2M"),
    H("f62_read_from_contract", ["C07", "C12", "C06", "C19"], ["f62::Deserializable::read_from"],
      "forall byte strings <= 9 bytes: Ok iff >= 8 bytes and le < M; representative < 2M; exactly 8 bytes consumed; never panics"),
    H("f62_write_into_canonical_contract", ["C12", "C07"], ["f62::Serializable::write_into", "f62::StarkField::as_int"],
      "forall representatives a < 2M: write_into appends 8 bytes whose little-endian value is below M (canonical; the library's decoder accepts it); both representatives of zero (0 and M) encode as 0", timeout=900),
    H("f62_inv_zero_contract", ["C07"], ["f62::inv"], "inv(0) == inv(M) == 0 (both representatives of zero; terminates)"),
    H("f62_ext2_frobenius_contract", ["C08", "C07"], ["f62::ExtensibleField<2>::frobenius"],
      "forall x0, x1: frobenius([x0, x1]) == [x0 + x1, -x1] with valid representatives; it is an involution; it fixes exactly the base field"),
    H("f62_canary_must_fail", ["C07", "C08"], [], "false claim: add(a,b) < M", canary=True),
])

kani_unit("f128", "winter-math", "math/src/field/f128/mod.rs", "kani/math_f128.rs", "field::f128", [
    H("f128_constants_contract", ["C07"], ["f128::M", "f128::G", "f128::TWO_ADICITY", "f128::get_modulus_le_bytes"],
      "M == 2^128 - 45*2^40 + 1; M-1 == 2^40 * odd; generator 3; published constants"),
    H("f128_add_contract", ["C07", "C08"], ["f128::add", "f128::Add::add", "f128::AddAssign"], "forall a,b < M: r < M and r == a+b mod M"),
    H("f128_sub_neg_contract", ["C07", "C08"], ["f128::sub", "f128::Sub::sub", "f128::SubAssign", "f128::Neg::neg"],
      "forall a,b < M: sub r < M, r == a-b mod M; neg(a) == -a mod M (canonical, -0 == 0); a + (-a) == 0"),
    H("f128_new_as_int_eq_contract", ["C07", "C08"], ["f128::new", "f128::as_int", "f128::PartialEq", "f128::double"],
      "new(v) == v mod M (canonical); as_int is the raw word; == is equality of residues; double == a+a"),
    H("f128_conversions_contract", ["C07"], ["f128::From<u8|u16|u32|u64>", "f128::TryFrom<u128>"], "from(v) denotes v; try_from Ok iff v < M"),
    H("f128_try_from_slice_contract", ["C07", "C19"], ["f128::TryFrom<&[u8]>", "f128::Randomizable::from_random_bytes"],
      "Ok/Some iff len == 16 and le(bytes) < M; element canonical and equal to le(bytes)"),
    H("f128_serde_contract", ["C07", "C12"], ["f128::Serializable::write_into", "f128::Deserializable::read_from", "f128::AsBytes::as_bytes"],
      "write_into emits le(residue) (16 bytes); read_from(write_into(a)) == a, all bytes consumed; as_bytes likewise"),
    H("f128_read_from_contract", ["C07", "C12", "C06", "C19"], ["f128::Deserializable::read_from"],
      "forall byte strings <= 17 bytes: Ok iff >= 16 bytes and le < M; element == le; exactly 16 bytes consumed; never panics"),
    H("f128_add64_with_carry_contract", ["C07"], ["f128::add64_with_carry"], "exact 65-bit sum of two limbs and a carry"),
    H("f128_add_192_contract", ["C07"], ["f128::add_192x192"], "three-limb addition == 192-bit sum modulo 2^192"),
    H("f128_sub_192_contract", ["C07"], ["f128::sub_192x192"], "three-limb subtraction == 192-bit difference modulo 2^192"),
    H("f128_sub_modulus_contract", ["C07"], ["f128::sub_modulus"], "sub_modulus(a) == a - M modulo 2^128"),
    H("f128_ext2_frobenius_contract", ["C08", "C07"], ["f128::ExtensibleField<2>::frobenius"],
      "forall x0, x1: frobenius([x0, x1]) == [x0 + x1, -x1] with valid representatives; it is an involution; it fixes exactly the base field"),
    H("f128_canary_must_fail", ["C07", "C08"], [], "false claim: add(a,b) >= a", canary=True),
])

PROPS["C07"] = dict(
    level="proof",
    verus=True,
    level_text="Every listed function of the three base fields carries a machine-checked contract: bit-level leaf "
               "functions (reductions, add/sub/neg/double, equality, conversions, serialization) are proved for all "
               "inputs by loop-free Kani harnesses on the real code; functions built from them (new, mul, square, "
               "exp, inv, ...) are proved at the level of residues mod p by Verus on bodies extracted from /repo "
               "on every run, against the leaf contracts. The 128-bit field's multiplication (mul with its limb helpers "
               "mul_128x64, mul_reduce, mul_by_modulus, sub_modulus, sub_192x192, add64_with_carry) is proved entirely in "
               "Verus, bit-precisely, from the extracted bodies: canonical operands give a canonical result congruent to a*b. "
               "The binary-Euclid inversions of the 62- and 128-bit fields are proved partially correct from their extracted bodies "
               "(loop invariants a*x == v, d*x == -u mod p with explicit witnesses; a halving budget bounds the 192-bit accumulators). "
               "The 128-bit field's wrappers (new, + - * / neg, inv, double, square, exp / exp_vartime over u128 exponents) are proved against "
               "those primitives, and get_root_of_unity of all three fields returns, for every admissible n, an element of order exactly 2^n.",
    level_note="Alongside the proof obligations a bounded stand-in (field_native: the real operations against an independent add-and-double reference on boundary values and seeded operands) runs as a safety net for edits that make a statement-anchored proof undecided; it is reported under coverage.native_bounded_standins and is not counted among the obligations. "
               "Trusted: Kani/CBMC/CaDiCaL, Verus/Z3, rustc; the Verus units assume no Kani-proved contract any more (the 64-bit field's "
               "Montgomery reductions, + and - are proved from their bodies by both engines); the 128-bit wrapper unit f128e assumes the clauses "
               "unit f128v proves for the raw add / sub / mul / inv (cross-unit, same back end); primality of the moduli / Fermat for inv; type shims "
               "for BaseElement in the Verus files. Functions not under contract are listed in DESIGN.md 4.C07.",
    explanation="",
    trusted=["primality of the three moduli; Fermat's little theorem (x^(M-1) = 1) for the step inv(x) = x^(M-2) of the 64-bit field",
             "termination of the binary-Euclid loops of f62::inv and f128::inv (needs gcd(x, M) = 1): their Verus contracts are partial-correctness statements",
             "mathematical lifting from the Montgomery witness identity to residues where no Verus lemma covers it"],
    not_decided=[],
)

verus_unit("f64v", "f64", ["C07", "C08"], ["f64::mont_red_cst (bit-precise, from its body)", "f64::mont_to_int (bit-precise, from its body)", "f64::Add::add", "f64::Sub::sub", "f64::BaseElement::new", "f64::Mul::mul", "traits::FieldElement::square", "f64::exp", "f64::exp_acc", "f64::inv", "f64::exp7", "f64::Div::div", "f64::Neg::neg", "f64::StarkField::as_int", "f64::From<u32>", "traits::StarkField::get_root_of_unity (64-bit instantiation: order exactly 2^n for every admissible n)"])
verus_unit("f62v", "f62", ["C07", "C08", "C12"], ["<f62::BaseElement as Serializable>::write_into (writes the canonical integer of the residue, whatever the internal representative)", "<f62::BaseElement as Deserializable>::read_from (accepts exactly encodings of integers below the modulus; decodes what write_into wrote)", "f62::mul", "f62::add", "f62::sub", "f62::normalize", "f62::Add/Sub/Mul/Neg", "f62::new", "f62::as_int", "f62::double", "square", "f62::eq", "f62::exp", "traits::FieldElement::exp_vartime (u64 instantiation)", "traits::StarkField::get_root_of_unity (62-bit instantiation: order exactly 2^n for every admissible n)", "f62::inv (partial correctness: x * inv(x) == 1 for x != 0, inv(0) == 0; termination of the Euclid loops not proved)"])

for _u, _fns in (("f64x", ["f64::ExtensibleField<2>::{mul,square,mul_base,frobenius}", "f64::ExtensibleField<3>::{mul,square,mul_base,frobenius}"]),
                 ("f62x", ["f62::ExtensibleField<2>::{mul,mul_base,frobenius}", "f62::ExtensibleField<3>::{mul,mul_base,frobenius}"]),
                 ("f128x", ["f128::ExtensibleField<2>::{mul,mul_base,frobenius}"])):
    verus_unit(_u, _u, ["C08"], _fns)

verus_unit("f128v", "f128", ["C07", "C08"], ["f128::inv (partial correctness: canonical result, x * inv(x) == 1 mod p for x != 0, inv(0) == 0; termination not proved)", "f128::add_192x192", "f128::mul", "f128::add", "f128::sub", "f128::mul_reduce", "f128::mul_128x64", "f128::mul_by_modulus", "f128::sub_modulus", "f128::sub_192x192", "f128::add64_with_carry"])
verus_unit("f128e", "f128e", ["C07", "C08"], ["f128::BaseElement::new", "f128::Add/Sub/Mul/Div/Neg", "f128::FieldElement::inv", "traits::FieldElement::double / square / exp / exp_vartime (u128 instantiation for the 128-bit field)", "traits::StarkField::get_root_of_unity (128-bit instantiation: order exactly 2^n for every admissible n)"])
verus_unit("fconsts", "fconsts", ["C07"], ["f64/f62/f128: MODULUS, TWO_ADICITY, TWO_ADIC_ROOT_OF_UNITY, GENERATOR"])
verus_unit("extinv", "extinv", ["C08"], ["QuadExtension::inv", "CubeExtension::inv"])
verus_unit("extwrap", "extwrap", ["C08"], ["QuadExtension / CubeExtension::{new, to_base_elements, base_element, double, square, conjugate, mul_base, From<B>}",
                                            "QuadExtension / CubeExtension: Add, Sub, Mul, Div, Neg (each hands the right coefficients to the right base-field / ExtensibleField operation)"])

PROPS["C08"] = dict(
    level="proof", verus=True,
    level_text="The bodies of every ExtensibleField<2>/<3> implementation (mul, square, mul_base, frobenius for the 62-, 64- and "
               "128-bit fields) are cut out of /repo on every run and proved by Verus to compute, coefficient by coefficient, the "
               "schoolbook product reduced by the documented irreducible polynomial (resp. the documented conjugation map), "
               "modulo p, for all operands; the proof bookkeeping is generated mechanically from the body text.",
    level_note="Alongside the proof obligations a bounded stand-in (field_native: the real operations against an independent add-and-double reference on boundary values and seeded operands) runs as a safety net for edits that make a statement-anchored proof undecided; it is reported under coverage.native_bounded_standins and is not counted among the obligations. "
               "Assumed (cross-unit): the residue-level contracts of the base-field operators (+, -, *, neg, double, square, new), "
               "which C07's units establish for the real code. Extension inversion is decided structurally only (zero test on every coefficient, the norm-based formula, the "
               "code's debug assertions) against an abstract base field; that the formula is the inverse is assumed. The generic wrapper types' plumbing (new, to_base_elements, "
               "base_element, double, square, conjugate, mul_base, + - * / neg, From<B>) is proved against an abstract base field (unit extwrap). Not covered: the "
               "Frobenius constants being phi^p (they are compared with the documented "
               "values only), slice reinterpretation.",
    explanation="",
)

verus_unit("polyv", "poly", ["C20"], ["polynom::add", "polynom::sub", "polynom::mul", "polynom::mul_by_scalar", "polynom::degree_of", "polynom::remove_leading_zeros", "utils::fill_power_series",
           "polynom::div (quotient * divisor + remainder == dividend coefficient by coefficient, remainder below the divisor degree; assumes five field laws)",
           "polynom::poly_from_roots / fill_zero_roots (every list of roots: the coefficients are those of the product of the (x - root) factors, built by the textbook rule q[j] = p[j-1] - p[j] * root; no algebraic law used)"])

native_unit("field_native", "winter-math", "math", "native/field_bounded.rs", ["C07", "C08"],
            ["f128 / f64 / f62 BaseElement: new, + - * / (and the assigning forms), neg, double, square, cube, inv, exp, ==, as_int, to_bytes / read_from, get_root_of_unity", "QuadExtension / CubeExtension over the three base fields: * (and *=), square, + - neg, double, mul_base, inv, /, conjugate, exp, to_bytes / read_from, slice_as_base_elements / slice_from_base_elements"],
            "every operation agrees with integer arithmetic modulo the prime computed by an independent add-and-double reference (extension products: schoolbook rule reduced by the documented irreducible polynomial); results compare equal to the canonical element of their residue, also when an operand is a non-canonical internal representative (x + (-x), y - y); x * inv(x) == 1, inv(0) == 0; conjugation is a ring automorphism of order n fixing the base field; encodings are canonical and decode back; roots of unity have order exactly 2^k",
            "NATIVE EXECUTION, not a proof (safety net for the case that a statement-anchored Verus proof of a bit-level function becomes undecided after an edit): ~60 boundary values per base field in all pairs + 400 seeded pairs, 13 exponents per value, 1500 operand pairs per extension field (64 corner combinations + seeded)",
            timeout=900)

native_unit("poly_native", "winter-math", "math", "native/poly_bounded.rs", ["C20"],
            ["polynom::{eval, eval_many, add, sub, mul, mul_by_scalar, div, syn_div, syn_div_in_place, syn_div_roots_in_place, interpolate, interpolate_batch, poly_from_roots, degree_of, remove_leading_zeros}", "utils::{get_power_series, get_power_series_with_offset, add_in_place, mul_acc, batch_inversion}"],
            "every function agrees with its defining identity, checked against a naive reference written in the stand-in (schoolbook product, evaluation by explicit powers): sums / differences / products / scalar multiples, quotient * divisor + remainder = dividend with deg remainder < deg divisor (long, synthetic by x^a - b, by roots), interpolation passes through the points with degree < n, expansion from roots is the monic product, degrees, power series, in-place accumulation, batch inversion with zeros preserved; nothing panics inside the documented domains",
            "NATIVE EXECUTION, not a proof: polynomials of 0..9 coefficients (0, 1, -1, seeded; zero leading / trailing coefficients) x 6 draws per size pair, all synthetic divisors x^a - b with a < 12, 1..4 roots, 1..9 interpolation points, vectors of 0..40 elements with a zero at every position and of 1023..2049 elements; f64, f128, f62, their quadratic extensions, cubic extensions of f64 and f62")

native_unit("fft_native", "winter-prover", "prover", "native/fft_bounded.rs", ["C09"],
            ["fft::{evaluate_poly, evaluate_poly_with_offset, interpolate_poly, interpolate_poly_with_offset, get_twiddles, get_inv_twiddles, infer_degree, permute_index}", "fft::serial / fft_inputs", "ColMatrix::{interpolate_columns, evaluate_columns_over}", "RowMatrix::evaluate_polys_over (segment width 8)", "matrix::{build_segments, get_evaluation_offsets, Segment}", "StarkDomain::from_twiddles"],
            "the fast transforms return exactly the direct evaluations at offset * w^i in natural order (direct evaluation written in the stand-in), interpolation inverts them, degree inference reports the true degree, and the column-batched / segmented LDE of a matrix equals direct evaluation of every column polynomial; permute_index is the bit reversal",
            "NATIVE EXECUTION, not a proof: sizes 2^1..2^10 (2^12 thorough) x 3 coefficient shapes x offsets {1, generator, seeded} x blowups {1, 2, 4, 8, 16, 128} with size * blowup <= 2^13 (2^15 thorough); f64, f128, f62, their quadratic extensions, cubic extensions of f64 / f62; matrices of 8 / 64 / 512 rows with 1..255 columns over f64, f128 and extensions, LDE domains with offsets {generator, seeded, 1, -1} x blowups {2, 4, 8, 16}; without the `concurrent` feature",
            timeout=2400)

native_unit("fft_native_concurrent", "winter-prover", "prover", "native/fft_bounded.rs", ["C09"],
            ["fft::{evaluate_poly, evaluate_poly_with_offset, interpolate_poly, interpolate_poly_with_offset, get_twiddles, get_inv_twiddles, infer_degree, permute_index}", "fft::serial / fft_inputs", "ColMatrix::{interpolate_columns, evaluate_columns_over}", "RowMatrix::evaluate_polys_over (segment width 8)", "matrix::{build_segments, get_evaluation_offsets, Segment}", "StarkDomain::from_twiddles"],
            "the fast transforms return exactly the direct evaluations at offset * w^i in natural order (direct evaluation written in the stand-in), interpolation inverts them, degree inference reports the true degree, and the column-batched / segmented LDE of a matrix equals direct evaluation of every column polynomial; permute_index is the bit reversal",
            "NATIVE EXECUTION, not a proof: sizes 2^1..2^10 (2^12 thorough) x 3 coefficient shapes x offsets {1, generator, seeded} x blowups {1, 2, 4, 8, 16, 128} with size * blowup <= 2^13 (2^15 thorough); f64, f128, f62, their quadratic extensions, cubic extensions of f64 / f62; matrices of 8 / 64 / 512 rows with 1..255 columns over f64, f128 and extensions, LDE domains with offsets {generator, seeded, 1, -1} x blowups {2, 4, 8, 16}; built WITH the `concurrent` cargo feature of /repo (the rayon code paths of math/src/fft/concurrent.rs, utils iterators and the prover matrices, taken from 1024 elements on; 16 rayon threads; thorough tier only)",
            timeout=2400, features="concurrent", tier="thorough", env={"RAYON_NUM_THREADS": "16"})

kani_unit("fft_index", "winter-math", "math/src/fft/mod.rs", "kani/math_fft.rs", "fft", [
    H("fft_permute_index_contract", ["C09"], ["fft::permute_index"],
      "forall k <= 63, i < 2^k: permute_index(2^k, i) < 2^k, is the k-bit reversal of i (bit b == bit k-1-b of i), and permute_index(2^k, .) is an involution"),
    H("fft_permute_index_injective_contract", ["C09"], ["fft::permute_index"],
      "forall k <= 63, i != j < 2^k: permute_index(2^k, i) != permute_index(2^k, j)"),
    H("fft_permute_index_recurrence_contract", ["C09"], ["fft::permute_index"],
      "permute_index(1, 0) == 0 and forall 1 <= k <= 63, i < 2^k: permute_index(2^k, i) == (i mod 2) * 2^(k-1) + permute_index(2^(k-1), i div 2) - the recurrence that defines the bit reversal (assumed by Verus unit fftcore as ax_pidx)"),
    H("fft_index_canary_must_fail", ["C09"], [], "false claim: permute_index(8, i) == i", canary=True),
])

verus_unit("fftv", "fftv", ["C09"], ["fft::fft_inputs::FftInputs::permute (every power-of-two length: position t receives the element at the bit-reversed position)", "fft::permute (the free function behind get_twiddles / get_inv_twiddles: dispatches to FftInputs::permute in the build without the `concurrent` feature)"])

verus_unit("fftcore", "fftcore", ["C09"], [
    "fft::fft_inputs::fft_in_place (the butterfly network: every power-of-two length, every element value, every twiddle table; equals the radix-2 decimation-in-time recursion on each interleaved subsequence, other positions untouched)",
    "FftInputs::fft_in_place (entry point: the whole input is one subsequence)",
    "<[E] as FftInputs>::butterfly / butterfly_twiddle (bodies extracted: the two positions receive a + t*b and a - t*b, nothing else changes)",
    "theorem_fft_is_dft (specification-level: the recursion with twiddles w^bitrev(k), w^(n/2) == -1, is the discrete Fourier transform - output p == sum_i s[i] * w^(i * bitrev p) - for every power-of-two size, relative to the module laws stated as a hypothesis)",
    "fft::serial::evaluate_poly (network followed by the bit-reversal permutation: position t == sum_i p[i] * w^(i*t), the polynomial evaluated at w^t in natural order, for every power-of-two size)",
    "fft::get_twiddles (table == w^bitrev(k) for w = get_root_of_unity(log2 n), w^(n/2) == -1; the two runtime assertions never fire under the documented pre-condition)",
    "fft::get_inv_twiddles (the same for w^(n-1))",
    "fft::serial::interpolate_poly (position t == (1/n) * sum_i v[i] * w^(i*t) for the inverse table: the inverse-transform formula)",
    "fft::serial::interpolate_poly_with_offset (coefficient t == (sum_i v[i] * w^(i*t)) * ((1/n) * (1/offset)^t): the inverse transform followed by the un-shifting of the coset, every power-of-two size and every offset; shift_by_series is an assumed contract, executed by the stand-in fft_native)"])
