from registry import H, kani_unit, verus_unit, native_unit, PROPS, UNITS

kani_unit("utils_writer", "winter-utils", "utils/core/src/serde/byte_writer.rs", "kani/utils_writer.rs", "serde::byte_writer", [
    H("utils_encoded_len_contract", ["C12"], ["utils::encoded_len"],
      "forall v: u64: encoded_len(v) is the least L in 1..=9 with v < 2^(7L)"),
    H("utils_usize_roundtrip_contract", ["C12"], ["ByteWriter::write_usize", "ByteReader::read_usize", "usize::write_into", "usize::read_from"],
      "forall v: usize: write_usize emits encoded_len(v) bytes whose first byte announces the length; read_usize returns v and consumes exactly those bytes"),
    H("utils_usize_serializable_contract", ["C12"], ["usize::write_into", "usize::read_from"],
      "forall v: usize: Serializable/Deserializable for usize round-trip with exactly encoded_len(v) bytes"),
    H("utils_usize_then_more_contract", ["C12"], ["ByteWriter::write_usize", "ByteReader::read_usize"],
      "a byte written after an encoded usize is the next byte read after decoding it"),
    H("utils_read_usize_total_contract", ["C06", "C12"], ["ByteReader::read_usize"],
      "forall byte strings <= 10 bytes: read_usize never panics; Ok iff the announced length is available; consumes exactly that many bytes"),
    H("utils_ints_roundtrip_contract", ["C12"], ["u8|u16|u32|u64|u128::write_into/read_from", "write_bool/read_bool"],
      "fixed-width integers and bool round-trip and consume exactly their width"),
    H("utils_option_u8_roundtrip_contract", ["C12"], ["Option<T>::write_into/read_from"], "Option<u8> round-trips, consumes exactly 1 or 2 bytes"),
    H("utils_vec_u8_roundtrip_bounded", ["C12"], ["Vec<T>::write_into/read_from", "ByteReader::read_many"],
      "Vec<u8> round-trips", bounded="vector length <= 2 (content fully symbolic)"),
    H("utils_writer_canary_must_fail", ["C12", "C06"], [], "false claim: encoded_len(v) < 9", canary=True),
])

kani_unit("utils_reader", "winter-utils", "utils/core/src/serde/byte_reader.rs", "kani/utils_reader.rs", "serde::byte_reader", [
    H("utils_slice_check_eor_contract", ["C06"], ["SliceReader::check_eor"],
      "forall pos <= len <= 8, n: usize (full range): Ok iff n <= len - pos; no arithmetic overflow"),
    H("utils_slice_read_slice_contract", ["C06", "C12"], ["SliceReader::read_slice"],
      "forall n: usize: Ok iff n bytes remain; returns exactly source[pos..pos+n]; pos advances by n"),
    H("utils_slice_read_u8_peek_contract", ["C06", "C12"], ["SliceReader::read_u8", "SliceReader::peek_u8", "SliceReader::has_more_bytes"],
      "peek does not advance; read_u8 returns the byte at pos and advances by one; Err exactly at the end"),
    H("utils_slice_read_array_contract", ["C06", "C12"], ["SliceReader::read_array"], "read_array::<3> Ok iff 3 bytes remain; returns them; advances by 3"),
    H("utils_read_many_untrusted_count_contract", ["C06"], ["ByteReader::read_vec", "ByteReader::read_many"],
      "forall n: usize (full range), source <= 4 bytes: Err iff n > remaining; never panics, never reserves memory for an unchecked count"),
    H("utils_reader_canary_must_fail", ["C06"], [], "false claim: check_eor(1) always Ok", canary=True),
])


native_unit("read_adapter_native", "winter-utils", "utils/core", "native/read_adapter_bounded.rs", ["C13", "C12"],
            ["ReadAdapter::{read_u8, peek_u8, read_slice, read_array, check_eor, has_more_bytes, pop, read_exact, buffer_at_least}",
             "ByteReader provided methods over ReadAdapter"],
            "after every operation ReadAdapter returns what SliceReader returns on the same bytes (value or error kind); look-ahead is never pessimistic; neither reader panics - also for lengths and counts near usize::MAX that no stream can satisfy, after any number of consumed bytes",
            "NATIVE EXECUTION, not a proof: all operation sequences of length <= 3 over 19 operations on streams of 0..=12 bytes under 5 chunkings; 12000 (thorough: 60000) seeded sequences of 40 operations on streams of 0..=700 bytes under chunkings around the 256-byte internal buffer; 21 unsatisfiable lengths (usize::MAX - {0, 1, 2, 3, 7, 12, 300}, fractions of usize::MAX, 2^62 .. 2049) x read_slice / read_vec / read_string / read_many / check_eor, after 8 x 2 prefixes and before 6 follow-up operations, streams of 0..=700 bytes, 6 chunkings")

native_unit("serde_native", "winter-utils", "utils/core", "native/serde_bounded.rs", ["C12"],
            ["Serializable / Deserializable for usize (vint64), u8..u128, (), Option<T>, [T; C], Vec<T>, String, BTreeMap<K, V>, BTreeSet<T>, tuples of 1..6", "ByteReader::read_many / read_string / read_usize", "ReadAdapter and SliceReader as byte sources"],
            "decode(encode(x)) == x, exactly the written bytes are consumed (a sentinel byte behind them is still there), re-encoding reproduces the bytes, and every strict prefix of the encoding is refused without a panic - with SliceReader, ReadAdapter over chunked readers and ReadAdapter over std::io::Cursor",
            "NATIVE EXECUTION, not a proof: value lists in the file (both ends of every vint64 length class; containers of 0, 1, 2, 127..129, 255..257, 300 elements; multi-byte UTF-8 strings; nested containers; 1..6-tuples); reader chunk sizes 1, 2, 3, 7, 255, 256, 257")


verus_unit("slicereaderv", "slicereaderv", ["C13", "C06", "C12"], [
    "SliceReader::new (position 0, representation invariant pos <= len)",
    "SliceReader::check_eor (Ok exactly when the requested number of bytes is left, for every request up to usize::MAX; no overflow)",
    "SliceReader::read_u8 / peek_u8 (the byte at the position; read advances by one, peek does not move; UnexpectedEOF exactly at the end)",
    "SliceReader::read_slice (Ok exactly when len bytes are left: bytes pos .. pos + len, position advanced by len; otherwise UnexpectedEOF and the position unchanged; every len)",
    "SliceReader::read_array (the same for every constant length N; copy_from_slice is an assumed std contract)",
    "SliceReader::has_more_bytes (true exactly when a byte is left)"])


verus_unit("serdev", "serdev", ["C12", "C06"], [
    "ByteReader::read_many (every count and element type: returns exactly what `count` successive element decodings return and consumes exactly their bytes; Err exactly when one of them fails; the pre-allocation request never exceeds 4096 elements whatever the untrusted count is)",
    "ByteWriter::write_many (appends the concatenation of the element encodings, in order)",
    "<Vec<T> as Serializable>::write_into (length prefix, then the elements)",
    "<Vec<T> as Deserializable>::read_from (a length, then that many elements)",
    "theorem_vec_roundtrip (specification level: decoding what write_into appended returns the same vector and leaves exactly the following bytes, for every vector length - relative to the element-level and vint64 round trips, which are hypotheses here and Kani contracts of C12 for the concrete types)"])
