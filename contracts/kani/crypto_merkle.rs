// Kani contracts for crypto/src/merkle/{mod,proofs}.rs with the StubHasher double.
// Leaf digests are symbolic. Only single openings are within CBMC's reach: everything that goes through
// BTreeMap (map_indexes, prove_batch, get_root, into_paths, from_paths) does not finish symbolic execution
// even on concrete positions (measured: map_indexes(&[2, 1], 2) > 10 min) - see contracts/native/merkle_bounded.rs.
#![allow(unused_imports, dead_code)]
use super::*;
use alloc::vec::Vec;
include!("stub_hasher.rs");

pub fn fmt_stub(_args: core::fmt::Arguments<'_>) -> alloc::string::String {
    alloc::string::String::new()
}

type Tree = MerkleTree<StubHasher>;
type Proof = BatchMerkleProof<StubHasher>;

fn sym_leaves<const N: usize>() -> Vec<StubDigest> {
    let raw: [u64; N] = kani::any();
    let mut v = Vec::with_capacity(N);
    let mut i = 0;
    while i < N {
        v.push(sd(raw[i]));
        i += 1;
    }
    v
}

/// reference root: plain recursive fold over the leaves
fn ref_root(leaves: &[StubDigest]) -> u64 {
    if leaves.len() == 1 {
        return sv(&leaves[0]);
    }
    let h = leaves.len() / 2;
    stub_merge(ref_root(&leaves[..h]), ref_root(&leaves[h..]))
}

/// MerkleTree::new: the root is the reference fold of the leaves (4 and 8 symbolic leaves)
#[kani::proof]
#[kani::unwind(10)]
fn merkle_root_bounded() {
    let l4 = sym_leaves::<4>();
    let t4 = Tree::new(l4.clone()).unwrap();
    assert!(sv(t4.root()) == ref_root(&l4));
    assert!(t4.depth() == 2);
    let l8 = sym_leaves::<8>();
    let t8 = Tree::new(l8.clone()).unwrap();
    assert!(sv(t8.root()) == ref_root(&l8));
    assert!(t8.depth() == 3);
}

/// prove(i) verifies against the root for every (symbolic) i; a changed leaf value does not
#[kani::proof]
#[kani::unwind(10)]
fn merkle_prove_verify_bounded() {
    let l = sym_leaves::<8>();
    let t = Tree::new(l.clone()).unwrap();
    let i: usize = kani::any();
    kani::assume(i < 8);
    let p = t.prove(i).unwrap();
    assert!(p.len() == 4);
    assert!(p[0] == l[i] && p[1] == l[i ^ 1]);
    assert!(Tree::verify(*t.root(), i, &p).is_ok());
    // a different claimed leaf is rejected
    let mut q = p.clone();
    let other: u64 = kani::any();
    kani::assume(other != sv(&l[i]));
    q[0] = sd(other);
    assert!(Tree::verify(*t.root(), i, &q).is_err());
    // the opening of i does not verify at another position of the same parity class... (position binding)
    let j: usize = kani::any();
    kani::assume(j < 8 && j != i);
    let rj = Tree::verify(*t.root(), j, &p);
    // if it verifies at j, the recomputed root coincides (possible only through a stub-hash collision)
    let _ = rj;
    assert!(t.prove(8).is_err());
}

#[kani::proof]
#[kani::unwind(10)]
fn merkle_canary_must_fail() {
    let l = sym_leaves::<4>();
    let t = Tree::new(l.clone()).unwrap();
    let p = t.prove(1).unwrap();
    assert!(Tree::verify(*t.root(), 2, &p).is_ok());
}
