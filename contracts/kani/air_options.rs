// Kani contracts for air/src/options.rs: ProofOptions / FieldExtension (de)serialization.
#![allow(unused_imports, dead_code)]
use super::*;
use utils::{ByteReader, Deserializable, Serializable, SliceReader};

pub fn fmt_stub(_args: core::fmt::Arguments<'_>) -> alloc::string::String {
    alloc::string::String::new()
}

/// the assertion set of ProofOptions::new, written as a predicate
pub fn valid_options(q: usize, b: usize, g: u32, ff: usize, rd: usize) -> bool {
    q > 0 && q <= 255
        && b.is_power_of_two() && b >= 2 && b <= 128
        && g <= 32
        && ff.is_power_of_two() && ff >= 2 && ff <= 16
        && rd <= 255 && (rd + 1).is_power_of_two()
}

fn ext_from(code: u8) -> Option<FieldExtension> {
    match code {
        1 => Some(FieldExtension::None),
        2 => Some(FieldExtension::Quadratic),
        3 => Some(FieldExtension::Cubic),
        _ => None,
    }
}

/// read_from over every 6-byte string (and every truncation): total; Ok exactly for the byte strings
/// that encode constructor-valid options; the decoded value re-encodes to the same bytes.
#[kani::proof]
#[kani::stub(alloc::fmt::format, fmt_stub)]
fn air_options_read_total_contract() {
    let bytes: [u8; 7] = kani::any();
    let len: usize = kani::any();
    kani::assume(len <= 7);
    let mut rd = SliceReader::new(&bytes[..len]);
    let r = ProofOptions::read_from(&mut rd);
    let valid = len >= 6
        && valid_options(bytes[0] as usize, bytes[1] as usize, bytes[2] as u32, bytes[4] as usize, bytes[5] as usize)
        && ext_from(bytes[3]).is_some();
    match r {
        Ok(o) => {
            assert!(valid);
            assert!(o.num_queries() == bytes[0] as usize);
            assert!(o.blowup_factor() == bytes[1] as usize);
            assert!(o.grinding_factor() == bytes[2] as u32);
            assert!(o.field_extension() as u8 == bytes[3]);
            let fo = o.to_fri_options();
            assert!(fo.folding_factor() == bytes[4] as usize);
            assert!(fo.remainder_max_degree() == bytes[5] as usize);
            assert!(fo.blowup_factor() == bytes[1] as usize);
            assert!(rd.has_more_bytes() == (len == 7));
            let mut out: Vec<u8> = Vec::new();
            o.write_into(&mut out);
            assert!(out.len() == 6);
            let i: usize = kani::any();
            kani::assume(i < 6);
            assert!(out[i] == bytes[i]);
        },
        Err(_) => assert!(!valid),
    }
}

/// every value the constructor accepts can be decoded after it has been encoded
#[kani::proof]
#[kani::stub(alloc::fmt::format, fmt_stub)]
fn air_options_roundtrip_contract() {
    let (q, b, ff, rdeg): (usize, usize, usize, usize) = (kani::any(), kani::any(), kani::any(), kani::any());
    let g: u32 = kani::any();
    let code: u8 = kani::any();
    kani::assume(valid_options(q, b, g, ff, rdeg));
    let ext = ext_from(code);
    kani::assume(ext.is_some());
    kani::cover!(q == 255 && b == 128 && g == 32 && ff == 16 && rdeg == 255);
    let o = ProofOptions::new(q, b, g, ext.unwrap(), ff, rdeg);
    let mut out: Vec<u8> = Vec::new();
    o.write_into(&mut out);
    assert!(out.len() == 6);
    let mut rd = SliceReader::new(&out);
    let back = ProofOptions::read_from(&mut rd);
    assert!(back.is_ok());
    assert!(back.unwrap() == o);
    assert!(!rd.has_more_bytes());
}

#[kani::proof]
#[kani::stub(alloc::fmt::format, fmt_stub)]
fn air_field_extension_contract() {
    let code: u8 = kani::any();
    let bytes = [code];
    let mut rd = SliceReader::new(&bytes);
    match FieldExtension::read_from(&mut rd) {
        Ok(e) => {
            assert!(code >= 1 && code <= 3 && e as u8 == code);
            assert!(e.degree() == code as u32);
            assert!(e.is_none() == (code == 1));
            let mut out: Vec<u8> = Vec::new();
            e.write_into(&mut out);
            assert!(out.len() == 1 && out[0] == code);
        },
        Err(_) => assert!(code == 0 || code > 3),
    }
}

#[kani::proof]
#[kani::stub(alloc::fmt::format, fmt_stub)]
fn air_options_canary_must_fail() {
    let bytes: [u8; 6] = kani::any();
    let mut rd = SliceReader::new(&bytes);
    assert!(ProofOptions::read_from(&mut rd).is_err());
}
