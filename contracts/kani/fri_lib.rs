// Kani contracts for the integer functions of the fri crate: FriOptions::num_fri_layers,
// folding::fold_positions, utils::map_positions_to_indexes. Appended to fri/src/lib.rs.
#![allow(unused_imports, dead_code)]
use crate::folding::fold_positions;
use crate::utils::map_positions_to_indexes;
use crate::FriOptions;
use alloc::vec::Vec;

pub fn fmt_stub(_args: core::fmt::Arguments<'_>) -> alloc::string::String {
    alloc::string::String::new()
}

/// num_fri_layers(domain): terminates for every supported folding factor, and returns the least k such
/// that domain / N^k <= (remainder_max_degree + 1) * blowup  (domain a power of two up to 2^32)
#[kani::proof]
#[kani::unwind(35)]
#[kani::stub(alloc::fmt::format, fmt_stub)]
fn fri_num_layers_contract() {
    let lf: u32 = kani::any();
    kani::assume(lf >= 1 && lf <= 4);
    let lb: u32 = kani::any();
    kani::assume(lb <= 7);
    let lr: u32 = kani::any(); // remainder_max_degree + 1 = 2^lr
    kani::assume(lr <= 8);
    let ld: u32 = kani::any();
    kani::assume(ld <= 32);
    let o = FriOptions::new(1usize << lb, 1usize << lf, (1usize << lr) - 1);
    let k = o.num_fri_layers(1usize << ld);
    // reference: smallest k with ld - k * lf <= lr + lb
    let cap = lr + lb;
    let expect: usize = if ld <= cap { 0 } else { ((ld - cap + lf - 1) / lf) as usize };
    assert!(k == expect);
}

/// fold_positions on three positions: every position is reduced modulo the folded domain size,
/// duplicates are dropped, order of first occurrence is kept
#[kani::proof]
#[kani::unwind(5)]
fn fri_fold_positions_bounded() {
    let p: [u16; 3] = kani::any();
    let ld: u32 = kani::any();
    kani::assume(ld >= 2 && ld <= 12);
    let lf: u32 = kani::any();
    kani::assume(lf >= 1 && lf <= 4 && lf < ld);
    let source = 1usize << ld;
    let target = source >> lf;
    let q = [p[0] as usize, p[1] as usize, p[2] as usize];
    kani::assume(q[0] < source && q[1] < source && q[2] < source);
    let r = fold_positions(&q, source, 1usize << lf);
    let (f0, f1, f2) = (q[0] % target, q[1] % target, q[2] % target);
    // reference: first occurrences in order
    assert!(r.len() >= 1 && r[0] == f0);
    if f1 != f0 {
        assert!(r.len() >= 2 && r[1] == f1);
        if f2 != f0 && f2 != f1 {
            assert!(r.len() == 3 && r[2] == f2);
        } else {
            assert!(r.len() == 2);
        }
    } else if f2 != f0 {
        assert!(r.len() == 2 && r[1] == f2);
    } else {
        assert!(r.len() == 1);
    }
}

/// map_positions_to_indexes: identity for one partition; for P partitions a bijection of the folded
/// domain [0, T) onto [0, T) that agrees with the prover's transposed layout (one position, all values)
#[kani::proof]
#[kani::unwind(4)]
fn fri_map_positions_contract() {
    let ld: u32 = kani::any();
    kani::assume(ld >= 2 && ld <= 24);
    let lf: u32 = kani::any();
    kani::assume(lf >= 1 && lf <= 4 && lf < ld);
    let lp: u32 = kani::any();
    kani::assume(lp <= ld - lf);
    let source = 1usize << ld;
    let t = source >> lf;
    let parts = 1usize << lp;
    let (a, b): (usize, usize) = (kani::any(), kani::any());
    kani::assume(a < t && b < t);
    let r = map_positions_to_indexes(&[a, b], source, 1usize << lf, parts);
    assert!(r.len() == 2);
    assert!(r[0] < t && r[1] < t);
    assert!((r[0] == r[1]) == (a == b)); // injective
    if parts == 1 {
        assert!(r[0] == a && r[1] == b);
    }
    // layout: position = local * P + partition  ->  partition * (T / P) + local
    assert!(r[0] == (a % parts) * (t / parts) + a / parts);
}

/// totality for hostile partition counts: the count is a power of two taken from a proof byte (any 2^0..2^63,
/// FriProof::read_from refuses larger exponents); the function neither overflows nor divides by zero, and
/// returns one index per position
#[kani::proof]
#[kani::unwind(4)]
fn fri_map_positions_total_contract() {
    let ld: u32 = kani::any();
    kani::assume(ld >= 2 && ld <= 32);
    let lf: u32 = kani::any();
    kani::assume(lf >= 1 && lf <= 4 && lf < ld);
    let lp: u32 = kani::any();
    kani::assume(lp <= 63);
    kani::cover!(lp == 63 && lf == 1);
    let source = 1usize << ld;
    let t = source >> lf;
    let (a, b): (usize, usize) = (kani::any(), kani::any());
    kani::assume(a < t && b < t);
    let r = map_positions_to_indexes(&[a, b], source, 1usize << lf, 1usize << lp);
    assert!(r.len() == 2);
}

#[kani::proof]
#[kani::unwind(35)]
#[kani::stub(alloc::fmt::format, fmt_stub)]
fn fri_lib_canary_must_fail() {
    let o = FriOptions::new(8, 4, 31);
    let ld: u32 = kani::any();
    kani::assume(ld <= 32);
    assert!(o.num_fri_layers(1usize << ld) < 5);
}
