// Kani contracts for crypto/src/random/default.rs (DefaultRandomCoin), with the StubHasher double.
#![allow(unused_imports, dead_code)]
use super::*;
use math::fields::f64::BaseElement;
use utils::Randomizable;
include!("stub_hasher.rs");

pub fn fmt_stub(_args: core::fmt::Arguments<'_>) -> alloc::string::String {
    alloc::string::String::new()
}

type Coin = DefaultRandomCoin<StubHasher>;
const M64: u64 = 0xFFFF_FFFF_0000_0001;

fn any_coin() -> (Coin, u64, u64) {
    let seed: u64 = kani::any();
    let counter: u64 = kani::any();
    kani::assume(counter < u64::MAX - 4);
    (Coin { seed: sd(seed), counter }, seed, counter)
}

/// new(): seed == H::hash_elements(input), counter == 0 (inputs of 0..=2 elements)
#[kani::proof]
#[kani::unwind(18)]
fn crypto_coin_new_contract() {
    let a = BaseElement::new(kani::any());
    let b = BaseElement::new(kani::any());
    let c0 = Coin::new(&[]);
    assert!(c0.counter == 0 && c0.seed == <StubHasher as ElementHasher>::hash_elements::<BaseElement>(&[]));
    let c2 = Coin::new(&[a, b]);
    assert!(c2.counter == 0 && c2.seed == <StubHasher as ElementHasher>::hash_elements(&[a, b]));
}

/// reseed(data): seed' == H::merge([seed, data]), counter' == 0
#[kani::proof]
fn crypto_coin_reseed_contract() {
    let (mut c, seed, _ctr) = any_coin();
    let d: u64 = kani::any();
    c.reseed(sd(d));
    assert!(c.counter == 0);
    assert!(sv(&c.seed) == stub_merge(seed, d));
}

/// next(): counter' == counter + 1, value == H::merge_with_int(seed, counter + 1), seed unchanged
#[kani::proof]
fn crypto_coin_next_contract() {
    let (mut c, seed, ctr) = any_coin();
    let v = c.next();
    assert!(c.counter == ctr + 1);
    assert!(sv(&c.seed) == seed);
    assert!(sv(&v) == stub_mwi(seed, ctr + 1));
}

/// check_leading_zeros(nonce) == trailing zeros of the first 8 bytes (LE) of merge_with_int(seed, nonce);
/// the coin is not modified
#[kani::proof]
fn crypto_coin_leading_zeros_contract() {
    let (c, seed, ctr) = any_coin();
    let nonce: u64 = kani::any();
    let z = c.check_leading_zeros(nonce);
    assert!(z == stub_mwi(seed, nonce).trailing_zeros());
    assert!(c.counter == ctr && sv(&c.seed) == seed);
}

/// draw_integers(n, d, nonce) for every power-of-two domain, every nonce, n in 0..=3 (loop bound),
/// under the documented precondition n < d: never panics; Ok; exactly n values; value_i == le64(mwi(mwi(seed, nonce), i + 1)) & (d - 1),
/// hence < d; final state seed' == mwi(seed, nonce), counter' == max(n, 1).
#[kani::proof]
#[kani::unwind(6)]
#[kani::stub(alloc::fmt::format, fmt_stub)]
fn crypto_coin_draw_integers_bounded() {
    let (mut c, seed, _ctr) = any_coin();
    let n: usize = kani::any();
    kani::assume(n >= 1 && n <= 3); // the property quantifies over requested counts 1..255
    let log_d: u32 = kani::any();
    kani::assume(log_d < 64);
    let d = 1usize << log_d;
    let nonce: u64 = kani::any();
    kani::assume(n < d); // documented precondition (the function panics otherwise)
    kani::cover!(n == 3 && d == 4);
    kani::cover!(n == 1 && d == 2);
    let r = c.draw_integers(n, d, nonce);
    let s2 = stub_mwi(seed, nonce);
    match r {
        Ok(v) => {
            assert!(n < d);
            assert!(v.len() == n);
            let i: usize = kani::any();
            kani::assume(i < n);
            assert!(v[i] < d);
            assert!(v[i] as u64 == stub_mwi(s2, i as u64 + 1) & (d as u64 - 1));
            assert!(sv(&c.seed) == s2);
            // the counter counts the values drawn since the reseed (later draws must not repeat them)
            assert!(c.counter == n as u64);
        },
        Err(_) => assert!(false),
    }
}

/// abstraction of f64 `from_random_bytes` by its contract (proved in unit f64: Some iff 8 bytes with
/// le(bytes) < M, the element being a function of le(bytes)); the element is represented by the
/// raw word le(bytes) so that the harness can name "the element for candidate v" without a multiplier.
pub fn frb_contract_stub(bytes: &[u8]) -> Option<BaseElement> {
    if bytes.len() != 8 {
        return None;
    }
    let v = u64::from_le_bytes([bytes[0], bytes[1], bytes[2], bytes[3], bytes[4], bytes[5], bytes[6], bytes[7]]);
    if v < M64 { Some(BaseElement::from_mont(v)) } else { None }
}

/// draw::<BaseElement>() returns the element of the first candidate accepted by from_random_bytes
/// (candidates are the first ELEMENT_BYTES bytes of next()), and the counter advances by the number of
/// candidates tried. (Loop closed by assuming one of the first two candidates is valid.)
#[kani::proof]
#[kani::unwind(4)]
#[kani::stub(alloc::fmt::format, fmt_stub)]
#[kani::stub(<BaseElement as Randomizable>::from_random_bytes, frb_contract_stub)]
fn crypto_coin_draw_base_bounded() {
    let (mut c, seed, ctr) = any_coin();
    let c1 = stub_mwi(seed, ctr + 1);
    let c2 = stub_mwi(seed, ctr + 2);
    kani::assume(c1 < M64 || c2 < M64);
    kani::cover!(c1 >= M64);
    let r: Result<BaseElement, _> = c.draw();
    assert!(r.is_ok());
    let e = r.unwrap();
    if c1 < M64 {
        assert!(e.inner() == c1);
        assert!(c.counter == ctr + 1);
    } else {
        assert!(e.inner() == c2);
        assert!(c.counter == ctr + 2);
    }
    assert!(sv(&c.seed) == seed);
}

#[kani::proof]
fn crypto_random_canary_must_fail() {
    let (mut c, seed, ctr) = any_coin();
    let v = c.next();
    assert!(sv(&v) == stub_mwi(seed, ctr));
}
