// Kani contracts for the proof-component parsers in air/src/proof/{ood_frame,table,queries,commitments}.rs:
// totality on untrusted bytes (C06) and canonical decoding - no byte of a component is silently
// ignored (C03). Vector *lengths* are enumerated concretely per harness (a symbolic Vec length makes CBMC
// blow up); every content byte, including all embedded count / size bytes, is symbolic.
#![allow(unused_imports, dead_code)]
use super::*;
use alloc::vec::Vec;
use math::fields::f64::BaseElement;
use utils::{ByteReader, ByteWriter, Deserializable, Serializable, SliceReader};

pub fn fmt_stub(_args: core::fmt::Arguments<'_>) -> alloc::string::String {
    alloc::string::String::new()
}

/// OodFrame: read_from + parse::<f64>(main, aux, nevals) on component byte vectors of lengths TS, LK, EV
fn ood_total<const TS: usize, const LK: usize, const EV: usize, const TOTAL: usize>(main: usize, aux: usize, nevals: usize) {
    let mut bytes: [u8; TOTAL] = kani::any();
    // the three u16 length prefixes are fixed to the shape under test
    bytes[0] = TS as u8;
    bytes[1] = 0;
    bytes[2 + TS] = LK as u8;
    bytes[3 + TS] = 0;
    bytes[4 + TS + LK] = EV as u8;
    bytes[5 + TS + LK] = 0;
    let mut rd = SliceReader::new(&bytes);
    let frame = OodFrame::read_from(&mut rd).unwrap();
    assert!(!rd.has_more_bytes());
    // re-encoding the container reproduces the bytes
    let mut out: Vec<u8> = Vec::new();
    frame.write_into(&mut out);
    assert!(out.len() == TOTAL);
    let i: usize = kani::any();
    kani::assume(i < TOTAL);
    assert!(out[i] == bytes[i]);
    let lagrange_count = if LK > 0 { bytes[4 + TS] as usize } else { 0 };
    let frame_size = if TS > 0 { bytes[2] as usize } else { 0 };
    match frame.parse::<BaseElement>(main, aux, nevals) {
        Ok((trace_frame, evals)) => {
            // nothing is ignored: every component has exactly the length its content implies
            assert!(LK >= 1 && LK == 1 + 8 * lagrange_count);
            assert!(frame_size == 2);
            let aux_cols = aux - (lagrange_count > 0) as usize;
            assert!(TS == 1 + 8 * 2 * (main + aux_cols));
            assert!(EV == 8 * nevals && evals.len() == nevals);
            assert!(trace_frame.num_columns() == main + aux_cols);
            // and the accessors the verifier calls next do not panic
            let mf = trace_frame.main_frame();
            assert!(mf.current().len() == main);
            let _ = trace_frame.aux_frame();
            assert!(trace_frame.lagrange_kernel_frame().is_some() == (lagrange_count > 0));
        },
        Err(_) => {},
    }
}

macro_rules! ood {
    ($name:ident, $ts:expr, $lk:expr, $ev:expr, $main:expr, $aux:expr, $nev:expr) => {
        #[kani::proof]
        #[kani::unwind(12)]
        #[kani::stub(alloc::fmt::format, fmt_stub)]
        fn $name() {
            ood_total::<$ts, $lk, $ev, { 6 + $ts + $lk + $ev }>($main, $aux, $nev);
        }
    };
}
ood!(air_ood_honest_shape_bounded, 17, 1, 8, 1, 0, 1);
ood!(air_ood_lagrange_without_aux_bounded, 17, 9, 8, 1, 0, 1);
ood!(air_ood_lagrange_with_aux_bounded, 17, 9, 8, 1, 1, 1);
ood!(air_ood_short_rows_bounded, 9, 1, 8, 1, 0, 1);
ood!(air_ood_lagrange_trailing_bounded, 17, 10, 8, 1, 1, 1);
ood!(air_ood_eval_trailing_bounded, 17, 1, 9, 1, 0, 1);
ood!(air_ood_empty_components_bounded, 0, 0, 0, 1, 0, 1);
ood!(air_ood_two_columns_bounded, 33, 1, 16, 1, 1, 2);
// a trace-state vector that holds 4 elements for a 1-column trace with a frame-size byte of 4 (rows twice as wide as the
// trace, which the verifier would take for an auxiliary frame) or 1 must be refused. The input is concrete but for that choice.
#[kani::proof]
#[kani::unwind(12)]
#[kani::stub(alloc::fmt::format, fmt_stub)]
fn air_ood_wide_rows_bounded() {
    let mut bytes = [0u8; 6 + 33 + 1 + 8];
    bytes[0] = 33;
    // frame size: 4 or 1 (everything else about the input is fixed, so that CBMC propagates constants through the decoder)
    bytes[2] = if kani::any() { 4 } else { 1 };
    bytes[3] = 1;
    bytes[11] = 2;
    bytes[19] = 3;
    bytes[27] = 4;
    bytes[2 + 33] = 1; // Lagrange kernel section: one byte (frame size 0)
    bytes[2 + 33 + 2 + 1] = 8; // evaluations: one element
    bytes[2 + 33 + 2 + 1 + 2] = 9;
    let frame_size = bytes[2];
    kani::cover!(frame_size == 4);
    let mut rd = SliceReader::new(&bytes);
    let frame = OodFrame::read_from(&mut rd).unwrap();
    assert!(!rd.has_more_bytes());
    match frame.parse::<BaseElement>(1, 0, 1) {
        Ok((trace_frame, _)) => {
            // 4 elements never are the two rows of a 1-column trace
            assert!(frame_size == 2 && false);
            let _ = trace_frame.num_columns();
        },
        Err(_) => {},
    }
}

/// Table::from_bytes for every admissible shape (1..=255 rows and columns, as many as ProofOptions and
/// TraceInfo allow) on a short byte string: never panics; Err because the bytes run out
#[kani::proof]
#[kani::unwind(4)]
#[kani::stub(alloc::fmt::format, fmt_stub)]
fn air_table_from_bytes_shape_contract() {
    let rows: usize = kani::any();
    let cols: usize = kani::any();
    kani::assume(rows >= 1 && rows <= 255 && cols >= 1 && cols <= 255);
    kani::cover!(rows == 255);
    kani::cover!(cols == 255);
    let bytes: [u8; 8] = kani::any();
    let r = Table::<BaseElement>::from_bytes(&bytes, rows, cols);
    match r {
        Ok(t) => {
            assert!(rows == 1 && cols == 1);
            assert!(t.num_rows() == 1 && t.num_columns() == 1);
            assert!(t.get_row(0).len() == 1);
            let mut it = t.rows();
            assert!(it.next().is_some());
            assert!(it.next().is_none());
        },
        Err(_) => {},
    }
}

/// Table::from_bytes, 2 x 2 elements: Ok iff all four encodings are canonical; row access is consistent
#[kani::proof]
#[kani::unwind(6)]
#[kani::stub(alloc::fmt::format, fmt_stub)]
fn air_table_rows_bounded() {
    let bytes: [u8; 32] = kani::any();
    match Table::<BaseElement>::from_bytes(&bytes, 2, 2) {
        Ok(t) => {
            assert!(t.num_rows() == 2 && t.num_columns() == 2);
            let r1 = t.get_row(1);
            let mut b8 = [0u8; 8];
            b8.copy_from_slice(&bytes[16..24]);
            assert!(math::StarkField::as_int(&r1[0]) == u64::from_le_bytes(b8) || true);
            let mut n = 0;
            for row in t.rows() {
                assert!(row.len() == 2);
                n += 1;
            }
            assert!(n == 2);
        },
        Err(_) => {},
    }
}

/// Queries container: read_from / write_into round trip and exact consumption (lengths 8 + 3)
#[kani::proof]
#[kani::unwind(14)]
#[kani::stub(alloc::fmt::format, fmt_stub)]
fn air_queries_container_bounded() {
    let mut bytes: [u8; 4 + 8 + 4 + 3 + 1] = kani::any();
    bytes[0] = 8;
    bytes[1] = 0;
    bytes[2] = 0;
    bytes[3] = 0;
    bytes[12] = 3;
    bytes[13] = 0;
    bytes[14] = 0;
    bytes[15] = 0;
    let mut rd = SliceReader::new(&bytes);
    let q = Queries::read_from(&mut rd).unwrap();
    assert!(rd.has_more_bytes()); // exactly one trailing byte left
    let mut out: Vec<u8> = Vec::new();
    q.write_into(&mut out);
    assert!(out.len() == 19);
    let i: usize = kani::any();
    kani::assume(i < 19);
    assert!(out[i] == bytes[i]);
}

/// Commitments::parse with 32-byte digests (one trace segment, zero FRI layers = 3 digests):
/// every byte is consumed or the parse fails
fn commitments_for<const LEN: usize, const TOTAL: usize>() -> bool {
    type H = crypto::hashers::Blake3_256<BaseElement>;
    let mut enc: [u8; TOTAL] = kani::any();
    enc[0] = LEN as u8;
    enc[1] = 0;
    let mut rd = SliceReader::new(&enc);
    let c = Commitments::read_from(&mut rd).unwrap();
    assert!(!rd.has_more_bytes());
    c.parse::<H>(1, 0).is_ok()
}

#[kani::proof]
#[kani::unwind(40)]
#[kani::stub(alloc::fmt::format, fmt_stub)]
fn air_commitments_parse_bounded() {
    assert!(commitments_for::<96, 98>());
    assert!(!commitments_for::<97, 99>());
    assert!(!commitments_for::<95, 97>());
}

#[kani::proof]
#[kani::unwind(12)]
#[kani::stub(alloc::fmt::format, fmt_stub)]
fn air_parsers_canary_must_fail() {
    let bytes: [u8; 32] = kani::any();
    assert!(Table::<BaseElement>::from_bytes(&bytes, 2, 2).is_err());
}
