// Kani contracts for verifier/src/lib.rs: AcceptableOptions::validate (acceptance policy)
#![allow(unused_imports, dead_code)]
use super::*;
use air::proof::Proof;
use air::{FieldExtension, ProofOptions};
use crypto::hashers::Blake3_256;
use math::fields::f64::BaseElement;

type H = Blake3_256<BaseElement>;

pub fn fmt_stub(_args: core::fmt::Arguments<'_>) -> alloc::string::String {
    alloc::string::String::new()
}

fn any_options() -> ProofOptions {
    let q: u8 = kani::any();
    let g: u8 = kani::any();
    kani::assume(q > 0 && g <= 32);
    ProofOptions::new(q as usize, 8, g as u32, FieldExtension::Quadratic, 4, 31)
}

/// MinConjecturedSecurity(m): Err(InsufficientConjecturedSecurity(m, level)) iff level < m, where
/// level is the proof's conjectured security level; Ok otherwise
#[kani::proof]
#[kani::unwind(12)]
#[kani::stub(alloc::fmt::format, fmt_stub)]
fn verifier_policy_min_conjectured_contract() {
    let mut proof = Proof::new_dummy();
    proof.context = air::proof::Context::new::<BaseElement>(air::TraceInfo::new(2, 64), any_options());
    let m: u32 = kani::any();
    let level = proof.security_level::<H>(true);
    kani::cover!(level >= m);
    kani::cover!(level < m);
    match AcceptableOptions::MinConjecturedSecurity(m).validate::<H>(&proof) {
        Ok(()) => assert!(level >= m),
        Err(VerifierError::InsufficientConjecturedSecurity(a, b)) => assert!(level < m && a == m && b == level),
        Err(_) => assert!(false),
    }
}

/// abstraction of Proof::security_level by an arbitrary function of its `conjectured` flag: the two
/// estimates are different symbolic constants, so the policy must consult the right one
pub fn security_level_stub<HH: crypto::Hasher>(_p: &Proof, conjectured: bool) -> u32 {
    if conjectured { 117 } else { 61 }
}

/// MinProvenSecurity(m): decided by the *proven* estimate (security_level(false)), MinConjecturedSecurity
/// by the conjectured one, for every minimum m
#[kani::proof]
#[kani::unwind(12)]
#[kani::stub(alloc::fmt::format, fmt_stub)]
#[kani::stub(Proof::security_level, security_level_stub)]
fn verifier_policy_min_proven_contract() {
    let proof = Proof::new_dummy();
    let m: u32 = kani::any();
    match AcceptableOptions::MinProvenSecurity(m).validate::<H>(&proof) {
        Ok(()) => assert!(61 >= m),
        Err(VerifierError::InsufficientProvenSecurity(a, b)) => assert!(61 < m && a == m && b == 61),
        Err(_) => assert!(false),
    }
    match AcceptableOptions::MinConjecturedSecurity(m).validate::<H>(&proof) {
        Ok(()) => assert!(117 >= m),
        Err(VerifierError::InsufficientConjecturedSecurity(a, b)) => assert!(117 < m && a == m && b == 117),
        Err(_) => assert!(false),
    }
}

#[kani::proof]
#[kani::unwind(12)]
#[kani::stub(alloc::fmt::format, fmt_stub)]
fn verifier_lib_canary_must_fail() {
    let mut proof = Proof::new_dummy();
    proof.context = air::proof::Context::new::<BaseElement>(air::TraceInfo::new(2, 64), any_options());
    let m: u32 = kani::any();
    assert!(AcceptableOptions::MinConjecturedSecurity(m).validate::<H>(&proof).is_ok());
}
