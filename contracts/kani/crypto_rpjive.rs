// Kani contracts for the sponge plumbing of crypto/src/hash/rescue/rpjive_256_jive/mod.rs. The Rescue permutation
// is replaced by a cheap mixing double and BaseElement::new by its contract (the element denoting
// v mod M), so that the obligations are about *absorption*: which elements enter the state, where,
// with which padding and length tag. They are stated as equalities between hash functions, which hold
// for every permutation.
#![allow(unused_imports, dead_code)]
use super::*;
use alloc::vec::Vec;

const M: u64 = 0xFFFF_FFFF_0000_0001;

pub fn fmt_stub(_args: core::fmt::Arguments<'_>) -> alloc::string::String {
    alloc::string::String::new()
}

/// contract abstraction of f64 BaseElement::new (unit f64v: v(new(x)) == x mod M, canonical)
pub fn new_stub(value: u64) -> BaseElement {
    BaseElement::from_mont(if value >= M { value - M } else { value })
}

/// permutation double: one round of mixing in which every word receives its neighbours at distances
/// +1, +2, -1 and -4 (with different weights), so that every digest word sees the capacity word, both
/// integer-input words and its neighbours, and repeated applications differ
pub fn perm_stub(state: &mut [BaseElement; STATE_WIDTH]) {
    let old = *state;
    let w = STATE_WIDTH;
    let mut i = 0;
    while i < w {
        state[i] = old[i]
            + old[(i + 1) % w].double()
            + old[(i + 2) % w].double().double()
            + old[(i + w - 1) % w].double().double().double()
            + old[(i + w - 4) % w]
            + BaseElement::ONE;
        i += 1;
    }
}

/// the documented encoding of a byte string: 7-byte little-endian chunks, the last one followed by a
/// single 0x01 byte (so a chunk never exceeds 2^56 and is a field element)
fn encode(bytes: &[u8]) -> Vec<BaseElement> {
    let mut out = Vec::new();
    let n = bytes.len();
    let mut start = 0;
    while start < n {
        let end = if start + 7 < n { start + 7 } else { n };
        let mut buf = [0u8; 8];
        let mut k = 0;
        while start + k < end {
            buf[k] = bytes[start + k];
            k += 1;
        }
        if end == n {
            buf[end - start] = 1;
        }
        out.push(new_stub(u64::from_le_bytes(buf)));
        start = end;
    }
    out
}

fn same(a: ElementDigest, b: ElementDigest) -> bool {
    let (x, y) = (a.as_elements(), b.as_elements());
    x[0].inner() == y[0].inner() && x[1].inner() == y[1].inner() && x[2].inner() == y[2].inner() && x[3].inner() == y[3].inner()
}

/// hash(bytes) never panics and equals hash_elements(encode(bytes)) for byte strings of length L
fn hash_bytes_is_sponge_of_encoding<const L: usize>() {
    let bytes: [u8; L] = kani::any();
    let d = RpJive64_256::hash(&bytes);
    let e = encode(&bytes);
    let r = RpJive64_256::hash_elements(&e);
    assert!(same(d, r));
}

macro_rules! hb {
    ($name:ident, $l:expr) => {
        #[kani::proof]
        #[kani::unwind(16)]
        #[kani::stub(BaseElement::new, new_stub)]
        #[kani::stub(RpJive64_256::apply_permutation, perm_stub)]
        #[kani::stub(alloc::fmt::format, fmt_stub)]
        fn $name() {
            hash_bytes_is_sponge_of_encoding::<$l>();
        }
    };
}
hb!(rpjive_hash_bytes_len0_bounded, 0);
hb!(rpjive_hash_bytes_len1_bounded, 1);
hb!(rpjive_hash_bytes_len7_bounded, 7);
hb!(rpjive_hash_bytes_len8_bounded, 8);
hb!(rpjive_hash_bytes_len14_bounded, 14);
hb!(rpjive_hash_bytes_len28_bounded, 28);
hb!(rpjive_hash_bytes_len29_bounded, 29);
hb!(rpjive_hash_bytes_len35_bounded, 35);

/// a second, cheaper permutation double for the multi-block harnesses: rotation by one word, the first
/// capacity word added to every word, plus a constant in word 0
pub fn perm_rot(state: &mut [BaseElement; STATE_WIDTH]) {
    let old = *state;
    let mut i = 0;
    while i < STATE_WIDTH {
        state[i] = old[(i + 1) % STATE_WIDTH] + old[0];
        i += 1;
    }
    state[0] = state[0] + BaseElement::ONE;
}

/// the documented sponge (Hirose padding) over base-field residues, written independently of hash_elements:
/// 8 words, words 0..3 capacity, 4..7 rate; capacity word 0 is 1 iff the number of residues is not a multiple
/// of the rate 4; residues are added into the rate, the permutation runs after every 4; a partial block is
/// completed by a 1 followed by zeros and permuted; the digest is words 4..7
fn reference_sponge(residues: &[BaseElement]) -> ElementDigest {
    let mut st = [BaseElement::ZERO; 8];
    if residues.len() % 4 != 0 {
        st[0] = BaseElement::ONE;
    }
    let mut filled = 0usize;
    let mut k = 0usize;
    while k < residues.len() {
        st[4 + filled] = st[4 + filled] + residues[k];
        filled += 1;
        if filled == 4 {
            perm_rot(&mut st);
            filled = 0;
        }
        k += 1;
    }
    if filled > 0 {
        st[4 + filled] = BaseElement::ONE;
        filled += 1;
        while filled < 4 {
            st[4 + filled] = BaseElement::ZERO;
            filled += 1;
        }
        perm_rot(&mut st);
    }
    ElementDigest::new([st[4], st[5], st[6], st[7]])
}

fn any_elements<const L: usize>() -> [BaseElement; L] {
    let raw: [u64; L] = kani::any();
    let mut els = [BaseElement::ZERO; L];
    let mut i = 0;
    while i < L {
        kani::assume(raw[i] < M);
        els[i] = BaseElement::from_mont(raw[i]);
        i += 1;
    }
    els
}

fn hash_elements_is_reference_sponge<const L: usize>() {
    let els = any_elements::<L>();
    assert!(same(RpJive64_256::hash_elements(&els), reference_sponge(&els)));
}

macro_rules! he {
    ($name:ident, $l:expr) => {
        #[kani::proof]
        #[kani::unwind(20)]
        #[kani::stub(BaseElement::new, new_stub)]
        #[kani::stub(RpJive64_256::apply_permutation, perm_rot)]
        fn $name() {
            hash_elements_is_reference_sponge::<$l>();
        }
    };
}
he!(rpjive_hash_elements_len0_bounded, 0);
he!(rpjive_hash_elements_len1_bounded, 1);
he!(rpjive_hash_elements_len3_bounded, 3);
he!(rpjive_hash_elements_len4_bounded, 4);
he!(rpjive_hash_elements_len5_bounded, 5);
he!(rpjive_hash_elements_len8_bounded, 8);
he!(rpjive_hash_elements_len9_bounded, 9);

#[kani::proof]
#[kani::unwind(20)]
#[kani::stub(BaseElement::new, new_stub)]
#[kani::stub(RpJive64_256::apply_permutation, perm_rot)]
fn rpjive_hash_elements_extension_typing_bounded() {
    use math::fields::{CubeExtension, QuadExtension};
    let c = any_elements::<6>();
    let quad = [QuadExtension::new(c[0], c[1]), QuadExtension::new(c[2], c[3]), QuadExtension::new(c[4], c[5])];
    assert!(same(RpJive64_256::hash_elements(&quad), reference_sponge(&c)));
    let cube = [CubeExtension::new(c[0], c[1], c[2]), CubeExtension::new(c[3], c[4], c[5])];
    assert!(same(RpJive64_256::hash_elements(&cube), reference_sponge(&c)));
}

/// the documented Jive compression of an 8-word input block, written independently: digest word i is
/// in[i] + in[4 + i] + perm(in)[i] + perm(in)[4 + i]
fn reference_jive(input: [BaseElement; 8]) -> ElementDigest {
    let mut st = input;
    perm_rot(&mut st);
    let mut r = [BaseElement::ZERO; 4];
    let mut i = 0;
    while i < 4 {
        r[i] = input[i] + input[4 + i] + st[i] + st[4 + i];
        i += 1;
    }
    ElementDigest::new(r)
}

fn any_digest() -> [BaseElement; 4] {
    let raw: [u64; 4] = kani::any();
    kani::assume(raw[0] < M && raw[1] < M && raw[2] < M && raw[3] < M);
    [BaseElement::from_mont(raw[0]), BaseElement::from_mont(raw[1]), BaseElement::from_mont(raw[2]), BaseElement::from_mont(raw[3])]
}

/// merge([a, b]) == Jive compression of the block a || b, for all digests
#[kani::proof]
#[kani::unwind(16)]
#[kani::stub(BaseElement::new, new_stub)]
#[kani::stub(RpJive64_256::apply_permutation, perm_rot)]
fn rpjive_merge_contract() {
    let a = any_digest();
    let b = any_digest();
    let d = RpJive64_256::merge(&[ElementDigest::new(a), ElementDigest::new(b)]);
    assert!(same(d, reference_jive([a[0], a[1], a[2], a[3], b[0], b[1], b[2], b[3]])));
}

/// merge_with_int(seed, v) == Jive compression of seed || [v, 0, 0, 5] for v < M and of seed || [v mod M, v div M, 0, 6]
/// otherwise, for every seed and every 64-bit v; that input block is injective in v
#[kani::proof]
#[kani::unwind(16)]
#[kani::stub(BaseElement::new, new_stub)]
#[kani::stub(RpJive64_256::apply_permutation, perm_rot)]
fn rpjive_merge_with_int_contract() {
    let s = any_digest();
    let v: u64 = kani::any();
    kani::cover!(v == M);
    kani::cover!(v > M);
    let d = RpJive64_256::merge_with_int(ElementDigest::new(s), v);
    let z = BaseElement::ZERO;
    if v < M {
        assert!(same(d, reference_jive([s[0], s[1], s[2], s[3], new_stub(v), z, z, new_stub(5)])));
    } else {
        assert!(same(d, reference_jive([s[0], s[1], s[2], s[3], new_stub(v - M), new_stub(1), z, new_stub(6)])));
    }
    // injectivity of the absorbed block in the integer
    let w: u64 = kani::any();
    kani::assume(w != v);
    let enc = |x: u64| if x < M { (x, 0u64, 5u8) } else { (x - M, 1u64, 6u8) };
    assert!(enc(v) != enc(w));
}

#[kani::proof]
#[kani::unwind(16)]
#[kani::stub(BaseElement::new, new_stub)]
#[kani::stub(RpJive64_256::apply_permutation, perm_stub)]
#[kani::stub(alloc::fmt::format, fmt_stub)]
fn rpjive_canary_must_fail() {
    let a: [u8; 3] = kani::any();
    let b: [u8; 3] = kani::any();
    assert!(same(RpJive64_256::hash(&a), RpJive64_256::hash(&b)));
}
