// Kani contracts for utils/core/src/serde/byte_reader.rs: SliceReader is total on untrusted sizes.
#![allow(unused_imports, dead_code)]
use super::*;
use alloc::vec::Vec;

pub fn fmt_stub(_args: core::fmt::Arguments<'_>) -> alloc::string::String {
    alloc::string::String::new()
}

fn any_reader<'a>(bytes: &'a [u8; 8]) -> (SliceReader<'a>, usize, usize) {
    let len: usize = kani::any();
    kani::assume(len <= 8);
    let pos: usize = kani::any();
    kani::assume(pos <= len);
    (SliceReader { source: &bytes[..len], pos }, len, pos)
}

/// check_eor(n) for every n: usize: Ok iff n bytes remain; never overflows
#[kani::proof]
fn utils_slice_check_eor_contract() {
    let bytes: [u8; 8] = kani::any();
    let (rd, len, pos) = any_reader(&bytes);
    let n: usize = kani::any();
    kani::cover!(n == usize::MAX);
    let r = rd.check_eor(n);
    assert!(r.is_ok() == (n <= len - pos));
}

/// read_slice(n) for every n: usize: Ok iff n bytes remain, returns exactly those bytes and advances by n
#[kani::proof]
#[kani::unwind(10)]
fn utils_slice_read_slice_contract() {
    let bytes: [u8; 8] = kani::any();
    let (mut rd, len, pos) = any_reader(&bytes);
    let n: usize = kani::any();
    let ok = {
        let r = rd.read_slice(n);
        match r {
            Ok(s) => {
                assert!(n <= len - pos);
                assert!(s.len() == n);
                let i: usize = kani::any();
                kani::assume(i < n);
                assert!(s[i] == bytes[pos + i]);
                true
            },
            Err(_) => {
                assert!(n > len - pos);
                false
            },
        }
    };
    if ok {
        assert!(rd.pos == pos + n);
    }
}

#[kani::proof]
fn utils_slice_read_u8_peek_contract() {
    let bytes: [u8; 8] = kani::any();
    let (mut rd, len, pos) = any_reader(&bytes);
    let p = rd.peek_u8();
    assert!(rd.pos == pos);
    let more = rd.has_more_bytes();
    assert!(more == (pos < len));
    let r = rd.read_u8();
    match r {
        Ok(b) => {
            assert!(pos < len && b == bytes[pos] && rd.pos == pos + 1);
            assert!(p.is_ok() && p.unwrap() == b);
        },
        Err(_) => assert!(pos == len && p.is_err()),
    }
}

#[kani::proof]
fn utils_slice_read_array_contract() {
    let bytes: [u8; 8] = kani::any();
    let (mut rd, len, pos) = any_reader(&bytes);
    match rd.read_array::<3>() {
        Ok(a) => {
            assert!(len - pos >= 3 && rd.pos == pos + 3);
            assert!(a[0] == bytes[pos] && a[1] == bytes[pos + 1] && a[2] == bytes[pos + 2]);
        },
        Err(_) => assert!(len - pos < 3),
    }
}

/// read_vec / read_many::<u8> with an untrusted element count: returns Err without panicking or
/// reserving memory for more elements than there are bytes left (count is a full-range usize).
#[kani::proof]
#[kani::unwind(10)]
#[kani::stub(alloc::fmt::format, fmt_stub)]
fn utils_read_many_untrusted_count_contract() {
    let bytes: [u8; 4] = kani::any();
    let len: usize = kani::any();
    kani::assume(len <= 4);
    let n: usize = kani::any();
    kani::cover!(n > (1usize << 60));
    {
        let mut rd = SliceReader::new(&bytes[..len]);
        let r = rd.read_vec(n);
        assert!(r.is_ok() == (n <= len));
    }
    {
        let mut rd = SliceReader::new(&bytes[..len]);
        let r: Result<Vec<u8>, _> = rd.read_many(n);
        match r {
            Ok(v) => assert!(n <= len && v.len() == n),
            Err(_) => assert!(n > len),
        }
    }
}

#[kani::proof]
fn utils_reader_canary_must_fail() {
    let bytes: [u8; 8] = kani::any();
    let (rd, len, pos) = any_reader(&bytes);
    assert!(rd.check_eor(1).is_ok());
}
