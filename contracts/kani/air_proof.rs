// Kani contracts for air/src/proof/mod.rs: conjectured security estimate
#![allow(unused_imports, dead_code)]
use super::*;
use crate::FieldExtension;

pub fn fmt_stub(_args: core::fmt::Arguments<'_>) -> alloc::string::String {
    alloc::string::String::new()
}

fn any_options() -> (ProofOptions, u32, u32, u32, u32) {
    let (q, g): (u8, u8) = (kani::any(), kani::any());
    let lb: u8 = kani::any(); // log2(blowup)
    let deg: u8 = kani::any();
    kani::assume(q > 0 && g <= 32 && lb >= 1 && lb <= 7 && deg >= 1 && deg <= 3);
    let ext = match deg {
        1 => FieldExtension::None,
        2 => FieldExtension::Quadratic,
        _ => FieldExtension::Cubic,
    };
    (ProofOptions::new(q as usize, 1usize << lb, g as u32, ext, 4, 31), q as u32, lb as u32, g as u32, deg as u32)
}

/// the documented formula, in i64 (no wrap-around possible):
///   field_security = field_bits * degree - log2(trace_len * blowup)
///   query_security = log2(blowup) * queries, plus grinding when that is >= 80
///   level = min(min(field_security, query_security) - 1, collision_resistance), floored at 0
fn spec_conjectured(q: u32, lb: u32, g: u32, deg: u32, field_bits: u32, log_n: u32, cr: u32) -> u32 {
    let fs = field_bits as i64 * deg as i64 - (log_n as i64 + lb as i64);
    let mut qs = lb as i64 * q as i64;
    if qs >= 80 {
        qs += g as i64;
    }
    let m = core::cmp::min(core::cmp::min(fs, qs) - 1, cr as i64);
    if m < 0 { 0 } else { m as u32 }
}

/// conjectured level == formula, no overflow / underflow, for every options set, every claimed field
/// size a parsed context can carry (1..=2040 bits), every trace length 2^3..2^32 whose LDE domain fits
/// the context invariant (<= 2^32), every collision resistance
#[kani::proof]
fn air_conjectured_security_contract() {
    let (o, q, lb, g, deg) = any_options();
    let field_bits: u32 = kani::any();
    kani::assume(field_bits <= 2040);
    let log_n: u32 = kani::any();
    kani::assume(log_n >= 3 && log_n <= 32 && log_n + lb <= 32);
    let cr: u32 = kani::any();
    kani::cover!(field_bits == 1 && log_n == 25);
    kani::cover!(field_bits == 62 && deg == 3 && q == 255 && lb == 7);
    let r = get_conjectured_security(&o, field_bits, 1usize << log_n, cr);
    assert!(r == spec_conjectured(q, lb, g, deg, field_bits, log_n, cr));
}

/// monotone in queries, grinding, extension degree and collision resistance
#[kani::proof]
fn air_conjectured_security_monotone_contract() {
    let (o1, q1, lb, g1, d1) = any_options();
    let (q2, g2, d2): (u8, u8, u8) = (kani::any(), kani::any(), kani::any());
    kani::assume(q2 as u32 >= q1 && g2 as u32 >= g1 && g2 <= 32 && d2 as u32 >= d1 && d2 <= 3);
    let ext2 = match d2 {
        1 => FieldExtension::None,
        2 => FieldExtension::Quadratic,
        _ => FieldExtension::Cubic,
    };
    let o2 = ProofOptions::new(q2 as usize, 1usize << lb, g2 as u32, ext2, 4, 31);
    let field_bits: u32 = kani::any();
    kani::assume(field_bits <= 2040);
    let log_n: u32 = kani::any();
    kani::assume(log_n >= 3 && log_n <= 32 && log_n + lb <= 32);
    let (cr1, cr2): (u32, u32) = (kani::any(), kani::any());
    kani::assume(cr2 >= cr1);
    let a = get_conjectured_security(&o1, field_bits, 1usize << log_n, cr1);
    let b = get_conjectured_security(&o2, field_bits, 1usize << log_n, cr2);
    assert!(b >= a);
}

// arbitrary total functions for libm: if the integer arithmetic around them cannot panic for *any*
// float results, it cannot panic for the real ones (CBMC has no faithful model of log2/powf/sqrt)
pub fn any_f64_1(_x: f64) -> f64 {
    kani::any()
}
pub fn any_f64_2(_x: f64, _y: f64) -> f64 {
    kani::any()
}

/// proven_security_protocol_for_m is total: for every options set, field size, trace length and
/// proximity parameter, and whatever the transcendental functions return, no integer underflow /
/// overflow / panic occurs (the u64 subtractions are guarded)
#[kani::proof]
#[kani::stub(log2, any_f64_1)]
#[kani::stub(sqrt, any_f64_1)]
#[kani::stub(ceil, any_f64_1)]
#[kani::stub(powf, any_f64_2)]
fn air_proven_security_total_contract() {
    let (o, _q, lb, _g, _deg) = any_options();
    let field_bits: u32 = kani::any();
    kani::assume(field_bits <= 2040);
    let log_n: u32 = kani::any();
    kani::assume(log_n >= 3 && log_n <= 32 && log_n + lb <= 32);
    let m: usize = kani::any();
    kani::assume(m >= 3 && m <= 1000);
    let r = proven_security_protocol_for_m(&o, field_bits, 1usize << log_n, m);
    let _ = r;
}

#[kani::proof]
fn air_proof_canary_must_fail() {
    let (o, _q, _lb, _g, _deg) = any_options();
    let r = get_conjectured_security(&o, 64, 1usize << 10, 128);
    assert!(r >= 100);
}
