// Kani contracts for prover/src/channel.rs (Fiat-Shamir on the prover side, C04) with a minimal Air
// double, the StubHasher and the RecordingCoin (whose state is a running digest of everything absorbed).
#![allow(unused_imports, dead_code)]
use super::*;
use air::{Air, AirContext, Assertion, EvaluationFrame, FieldExtension, ProofOptions, TraceInfo, TransitionConstraintDegree};
use alloc::vec::Vec;
use crypto::{ElementHasher, Hasher, RandomCoin};
use math::{fields::f64::BaseElement, FieldElement, ToElements};
use utils::Serializable;
include!("stub_hasher_ext.rs");

pub fn fmt_stub(_args: core::fmt::Arguments<'_>) -> alloc::string::String {
    alloc::string::String::new()
}

/// the smallest possible Air: one column, one degree-1 transition constraint, one assertion
struct AirDouble {
    context: AirContext<BaseElement>,
}
impl Air for AirDouble {
    type BaseField = BaseElement;
    type PublicInputs = ();
    type GkrProof = ();
    type GkrVerifier = ();
    fn new(trace_info: TraceInfo, _pub_inputs: (), options: ProofOptions) -> Self {
        AirDouble { context: AirContext::new(trace_info, alloc::vec![TransitionConstraintDegree::new(1)], 1, options) }
    }
    fn context(&self) -> &AirContext<BaseElement> {
        &self.context
    }
    fn evaluate_transition<E: FieldElement<BaseField = BaseElement>>(&self, frame: &EvaluationFrame<E>, _p: &[E], result: &mut [E]) {
        result[0] = frame.next()[0] - frame.current()[0];
    }
    fn get_assertions(&self) -> Vec<Assertion<BaseElement>> {
        alloc::vec![Assertion::single(0, 0, BaseElement::ONE)]
    }
}

type Ch<'a> = ProverChannel<'a, AirDouble, BaseElement, StubHasher, RecordingCoin>;
const M: u64 = 0xFFFF_FFFF_0000_0001;

fn options(queries: usize, grinding: u32) -> ProofOptions {
    ProofOptions::new(queries, 2, grinding, FieldExtension::None, 2, 0)
}

fn el() -> BaseElement {
    let x: u64 = kani::any();
    kani::assume(x < M);
    BaseElement::from_mont(x)
}

/// new(): the coin is seeded with hash(context elements || public input elements)
#[kani::proof]
#[kani::unwind(70)]
#[kani::stub(alloc::fmt::format, fmt_stub)]
fn prover_channel_new_contract() {
    let air = AirDouble::new(TraceInfo::new(1, 8), (), options(2, 0));
    let (p0, p1) = (el(), el());
    let ch = Ch::new(&air, alloc::vec![p0, p1]);
    let ctx = air::proof::Context::new::<BaseElement>(air.trace_info().clone(), air.options().clone());
    let mut seed: Vec<BaseElement> = ctx.to_elements();
    seed.push(p0);
    seed.push(p1);
    assert!(ch.public_coin.state == <StubHasher as ElementHasher>::hash_elements(&seed).0);
    assert!(ch.public_coin.reseeds == 0 && ch.public_coin.draws == 0);
    assert!(ch.pow_nonce == 0);
    assert!(ch.commitments.to_bytes().len() == 2); // empty commitment list (u16 length prefix only)
}

/// commit_trace / commit_constraints / commit_fri_layer: the root is appended to the commitments carried
/// in the proof AND absorbed by the coin, exactly that value, once
#[kani::proof]
#[kani::unwind(70)]
#[kani::stub(alloc::fmt::format, fmt_stub)]
fn prover_channel_commit_contract() {
    let air = AirDouble::new(TraceInfo::new(1, 8), (), options(2, 0));
    let mut ch = Ch::new(&air, Vec::new());
    let s0 = ch.public_coin.state;
    let (r1, r2, r3): (u64, u64, u64) = (kani::any(), kani::any(), kani::any());
    ch.commit_trace(sd(r1));
    assert!(ch.public_coin.state == stub_merge(s0, r1) && ch.public_coin.reseeds == 1);
    ch.commit_constraints(sd(r2));
    let s2 = stub_merge(stub_merge(s0, r1), r2);
    assert!(ch.public_coin.state == s2 && ch.public_coin.reseeds == 2);
    fri::ProverChannel::<BaseElement>::commit_fri_layer(&mut ch, sd(r3));
    assert!(ch.public_coin.state == stub_merge(s2, r3) && ch.public_coin.reseeds == 3 && ch.public_coin.draws == 0);
    // the proof carries exactly these three roots, in this order
    let bytes = ch.commitments.to_bytes();
    assert!(bytes.len() == 2 + 24);
    let rd = |k: usize| u64::from_le_bytes([bytes[k], bytes[k + 1], bytes[k + 2], bytes[k + 3], bytes[k + 4], bytes[k + 5], bytes[k + 6], bytes[k + 7]]);
    assert!(rd(2) == r1 && rd(10) == r2 && rd(18) == r3);
    // FRI challenges and the OOD point are drawn from the same coin, after what was absorbed
    let (s_after, raw) = RecordingCoin::expected_draw(ch.public_coin.state);
    let alpha: BaseElement = fri::ProverChannel::<BaseElement>::draw_fri_alpha(&mut ch);
    assert!(alpha.inner() == raw && ch.public_coin.state == s_after && ch.public_coin.draws == 1);
    let (s_after2, raw2) = RecordingCoin::expected_draw(s_after);
    let z: BaseElement = ch.get_ood_point();
    assert!(z.inner() == raw2 && ch.public_coin.state == s_after2);
}

/// send_ood_constraint_evaluations / send_ood_trace_states: the coin absorbs the hash of exactly the
/// elements that are written into the proof's OOD frame
#[kani::proof]
#[kani::unwind(70)]
#[kani::stub(alloc::fmt::format, fmt_stub)]
fn prover_channel_ood_contract() {
    let air = AirDouble::new(TraceInfo::new(1, 8), (), options(2, 0));
    let mut ch = Ch::new(&air, Vec::new());
    let s0 = ch.public_coin.state;
    let (c, n, e0) = (el(), el(), el());
    let frame = air::proof::TraceOodFrame::new(alloc::vec![c], alloc::vec![n], 1, None);
    ch.send_ood_trace_states(&frame);
    let h1 = <StubHasher as ElementHasher>::hash_elements(&[c, n]).0;
    assert!(ch.public_coin.state == stub_merge(s0, h1) && ch.public_coin.reseeds == 1);
    ch.send_ood_constraint_evaluations(&[e0]);
    let h2 = <StubHasher as ElementHasher>::hash_elements(&[e0]).0;
    assert!(ch.public_coin.state == stub_merge(stub_merge(s0, h1), h2) && ch.public_coin.reseeds == 2);
    // and the frame carried in the proof holds the canonical encodings of the same elements:
    // [17, 0 | 2, c, n] [1, 0 | 0] [8, 0 | e0]
    let b = ch.ood_frame.to_bytes();
    assert!(b.len() == 2 + 17 + 2 + 1 + 2 + 8);
    assert!(b[0] == 17 && b[1] == 0 && b[2] == 2 && b[19] == 1 && b[20] == 0 && b[21] == 0 && b[22] == 8 && b[23] == 0);
    let rd = |k: usize| u64::from_le_bytes([b[k], b[k + 1], b[k + 2], b[k + 3], b[k + 4], b[k + 5], b[k + 6], b[k + 7]]);
    assert!(rd(3) == c.as_int() && rd(11) == n.as_int() && rd(24) == e0.as_int());
}

/// grind_query_seed / get_query_positions: the nonce is the least one (>= 1) whose proof-of-work measure
/// under the *current* coin reaches the grinding factor; positions are drawn with that nonce from the
/// LDE domain, sorted and free of duplicates
#[kani::proof]
#[kani::unwind(70)]
#[kani::stub(alloc::fmt::format, fmt_stub)]
fn prover_channel_queries_bounded() {
    let air = AirDouble::new(TraceInfo::new(1, 8), (), options(2, 1));
    let mut ch = Ch::new(&air, Vec::new());
    let root: u64 = kani::any();
    ch.commit_trace(sd(root));
    let s = ch.public_coin.state;
    // (search loop closed by assuming one of the first three nonces succeeds)
    let ok = |nonce: u64| stub_mwi(s, nonce).trailing_zeros() >= 1;
    kani::assume(ok(1) || ok(2) || ok(3));
    ch.grind_query_seed();
    let expect = if ok(1) { 1 } else if ok(2) { 2 } else { 3 };
    assert!(ch.pow_nonce == expect);
    assert!(ch.public_coin.state == s); // grinding does not advance the coin
    let positions = ch.get_query_positions();
    assert!(positions.len() >= 1 && positions.len() <= 2);
    let mut i = 0;
    while i < positions.len() {
        assert!(positions[i] < 16);
        if i > 0 {
            assert!(positions[i - 1] < positions[i]);
        }
        i += 1;
    }
    // drawn with (num_queries, lde_domain_size, pow_nonce) from the coin as it was
    let s1 = stub_mwi(stub_mwi(s, expect), 1);
    let s2 = stub_mwi(s1, 2);
    let (p1, p2) = ((s1 as usize) & 15, (s2 as usize) & 15);
    assert!(ch.public_coin.state == s2);
    if p1 == p2 {
        assert!(positions.len() == 1 && positions[0] == p1);
    } else {
        assert!(positions.len() == 2 && positions[0] == core::cmp::min(p1, p2) && positions[1] == core::cmp::max(p1, p2));
    }
}

#[kani::proof]
#[kani::unwind(70)]
#[kani::stub(alloc::fmt::format, fmt_stub)]
fn prover_channel_canary_must_fail() {
    let air = AirDouble::new(TraceInfo::new(1, 8), (), options(2, 0));
    let mut ch = Ch::new(&air, Vec::new());
    let s0 = ch.public_coin.state;
    ch.commit_trace(sd(kani::any()));
    assert!(ch.public_coin.state == s0);
}
