// Kani contracts for math/src/field/f62/mod.rs: the multiplier-free leaf functions of the lazy
// [0, 2M) representation. Multiplication, exponentiation and inversion are in the Verus unit f62v.
#![allow(unused_imports, dead_code)]
use super::*;
use utils::SliceReader;

pub fn fmt_stub(_args: core::fmt::Arguments<'_>) -> alloc::string::String {
    alloc::string::String::new()
}

const M2: u64 = 2 * M;

fn any_rep() -> u64 {
    let a: u64 = kani::any();
    kani::assume(a < M2);
    a
}

fn res(x: u64) -> u64 {
    if x >= M { x - M } else { x }
}

#[kani::proof]
fn f62_constants_contract() {
    assert!(M == 4611624995532046337);
    assert!(M == (1u64 << 62) - 111 * (1u64 << 39) + 1);
    assert!(<BaseElement as StarkField>::MODULUS == M && <BaseElement as StarkField>::MODULUS_BITS == 62);
    assert!(<BaseElement as StarkField>::TWO_ADICITY == 39);
    assert!((M - 1) % (1u64 << 39) == 0 && ((M - 1) >> 39) & 1 == 1);
    // U * M == -1 (mod 2^64): the Montgomery constant
    assert!((U as u64).wrapping_mul(M) == u64::MAX);
    assert!(U < (1u128 << 64));
    let mb = <BaseElement as StarkField>::get_modulus_le_bytes();
    assert!(mb.len() == 8);
    let mut b8 = [0u8; 8];
    b8.copy_from_slice(&mb);
    assert!(u64::from_le_bytes(b8) == M);
    assert!(<BaseElement as FieldElement>::ELEMENT_BYTES == 8);
}

/// add: forall a, b < 2M: r < 2M and r == a + b - k*M for some k in 0..=3
#[kani::proof]
fn f62_add_contract() {
    let (a, b) = (any_rep(), any_rep());
    let r = add(a, b);
    assert!(r < M2);
    let s = a as u128 + b as u128;
    let m = M as u128;
    let rr = r as u128;
    assert!(s == rr || s == rr + m || s == rr + 2 * m || s == rr + 3 * m);
    assert!((BaseElement(a) + BaseElement(b)).0 == r);
    let mut c = BaseElement(a);
    c += BaseElement(b);
    assert!(c.0 == r);
    // residue level
    let t = res(a) as u128 + res(b) as u128;
    assert!(res(r) as u128 == if t >= m { t - m } else { t });
}

/// sub: forall a, b < 2M: r < 2M and r == a - b (mod M)
#[kani::proof]
fn f62_sub_contract() {
    let (a, b) = (any_rep(), any_rep());
    let r = sub(a, b);
    assert!(r < M2);
    assert!((BaseElement(a) - BaseElement(b)).0 == r);
    let mut c = BaseElement(a);
    c -= BaseElement(b);
    assert!(c.0 == r);
    let (ra, rb) = (res(a), res(b));
    let e = if ra >= rb { ra - rb } else { ra + M - rb };
    assert!(res(r) == e);
}

#[kani::proof]
fn f62_neg_contract() {
    let a = any_rep();
    let r = (-BaseElement(a)).0;
    assert!(r < M2);
    let ra = res(a);
    assert!(res(r) == if ra == 0 { 0 } else { M - ra });
}

#[kani::proof]
fn f62_double_contract() {
    let a = any_rep();
    let r = BaseElement(a).double().0;
    assert!(r < M2);
    let t = 2 * res(a) as u128;
    let m = M as u128;
    assert!(res(r) as u128 == if t >= m { t - m } else { t });
}

#[kani::proof]
fn f62_normalize_eq_contract() {
    let (a, b) = (any_rep(), any_rep());
    let n = normalize(a);
    assert!(n < M && (n == a || n + M == a));
    // equal exactly when they denote the same residue
    assert!((BaseElement(a) == BaseElement(b)) == (res(a) == res(b)));
}

/// constructors give representatives in [0, 2M) (the functional part is the Verus unit f62v)
#[kani::proof]
#[kani::stub(alloc::fmt::format, fmt_stub)]
fn f62_try_from_contract() {
    let v: u64 = kani::any();
    match BaseElement::try_from(v) {
        Ok(e) => assert!(v < M && e.0 < M2),
        Err(_) => assert!(v >= M),
    }
    let w: u128 = kani::any();
    match BaseElement::try_from(w) {
        Ok(_) => assert!(w < M as u128),
        Err(_) => assert!(w >= M as u128),
    }
    let bytes: [u8; 8] = kani::any();
    let bv = u64::from_le_bytes(bytes);
    match BaseElement::try_from(bytes) {
        Ok(_) => assert!(bv < M),
        Err(_) => assert!(bv >= M),
    }
}

#[kani::proof]
#[kani::stub(alloc::fmt::format, fmt_stub)]
fn f62_try_from_slice_contract() {
    let bytes: [u8; 10] = kani::any();
    let len: usize = kani::any();
    kani::assume(len <= 10);
    kani::cover!(len == 8);
    let r = BaseElement::try_from(&bytes[..len]);
    let rr = <BaseElement as Randomizable>::from_random_bytes(&bytes[..len]);
    let mut b8 = [0u8; 8];
    b8.copy_from_slice(&bytes[..8]);
    let v = u64::from_le_bytes(b8);
    match r {
        Ok(e) => {
            assert!(len == 8 && v < M && e.0 < M2);
            assert!(rr.is_some() && rr.unwrap().0 < M2);
        },
        Err(_) => {
            assert!(len != 8 || v >= M);
            assert!(rr.is_none());
        },
    }
}

#[kani::proof]
#[kani::stub(alloc::fmt::format, fmt_stub)]
fn f62_read_from_contract() {
    let bytes: [u8; 9] = kani::any();
    let len: usize = kani::any();
    kani::assume(len <= 9);
    let mut rd = SliceReader::new(&bytes[..len]);
    let mut b8 = [0u8; 8];
    b8.copy_from_slice(&bytes[..8]);
    let v = u64::from_le_bytes(b8);
    match BaseElement::read_from(&mut rd) {
        Ok(e) => {
            assert!(len >= 8 && v < M && e.0 < M2);
            assert!(rd.has_more_bytes() == (len == 9));
        },
        Err(_) => assert!(len < 8 || v >= M),
    }
}

/// inv maps both representatives of zero (raw words 0 and M) to zero, and terminates on them
#[kani::proof]
#[kani::unwind(2)]
fn f62_inv_zero_contract() {
    let x: u64 = kani::any();
    kani::assume(x == 0 || x == M);
    kani::cover!(x == M);
    let r = inv(x);
    assert!(normalize(r) == 0);
    assert!(BaseElement(x).inv() == BaseElement::ZERO);
}

/// Serializable::write_into writes a CANONICAL encoding for every internal representative in [0, 2M): 8 bytes whose
/// little-endian value is below M (so the library's own decoder accepts it), the two representatives of a residue
/// (a and a + M) are encoded identically, and both representatives of zero encode as 0.
/// (The functional part - the value written is the residue - is the Verus unit f62v.)
#[kani::proof]
#[kani::stub(alloc::fmt::format, fmt_stub)]
fn f62_write_into_canonical_contract() {
    let a = any_rep();
    kani::cover!(a == M);
    let mut out: Vec<u8> = Vec::new();
    BaseElement(a).write_into(&mut out);
    assert!(out.len() == 8);
    let mut b8 = [0u8; 8];
    b8.copy_from_slice(&out);
    let w = u64::from_le_bytes(b8);
    assert!(w < M);
    if a == 0 || a == M {
        assert!(w == 0);
    }
    let mut rd = SliceReader::new(&out);
    assert!(BaseElement::read_from(&mut rd).is_ok());
}

#[kani::proof]
fn f62_canary_must_fail() {
    let (a, b) = (any_rep(), any_rep());
    assert!(add(a, b) < M);
}

// ---- quadratic extension over the 62-bit field: the multiplier-free function, checked directly ----
#[kani::proof]
fn f62_ext2_frobenius_contract() {
    let (a, b) = (any_rep(), any_rep());
    let r = <BaseElement as ExtensibleField<2>>::frobenius([BaseElement(a), BaseElement(b)]);
    assert!(r[0].0 < M2 && r[1].0 < M2);
    let (ra, rb) = (res(a), res(b));
    let t = ra as u128 + rb as u128;
    assert!(res(r[0].0) as u128 == if t >= M as u128 { t - M as u128 } else { t });
    assert!(res(r[1].0) == if rb == 0 { 0 } else { M - rb });
    let rr = <BaseElement as ExtensibleField<2>>::frobenius(r);
    assert!(res(rr[0].0) == ra && res(rr[1].0) == rb);
}
