// Kani contracts for air/src/proof/context.rs
#![allow(unused_imports, dead_code)]
use super::*;
use utils::{ByteReader, Deserializable, Serializable, SliceReader};

pub fn fmt_stub(_args: core::fmt::Arguments<'_>) -> alloc::string::String {
    alloc::string::String::new()
}

/// num_modulus_bits == bit length of the little-endian integer (modulus of 1..=3 bytes, all values)
#[kani::proof]
#[kani::unwind(5)]
fn air_context_num_modulus_bits_contract() {
    modulus_bits_for::<1>();
    modulus_bits_for::<2>();
    modulus_bits_for::<3>();
}

fn modulus_bits_for<const N: usize>() {
    let m: [u8; N] = kani::any();
    let mut v: u32 = 0;
    let mut i = 0;
    while i < N {
        v |= (m[i] as u32) << (8 * i);
        i += 1;
    }
    let c = Context {
        trace_info: TraceInfo::new(1, 8),
        field_modulus_bytes: m.to_vec(),
        options: ProofOptions::new(1, 2, 0, crate::FieldExtension::None, 2, 0),
    };
    assert!(c.num_modulus_bits() == 32 - v.leading_zeros());
}

/// Context::read_from over every header: trace info (4 symbolic bytes, no metadata), a modulus of
/// MLEN symbolic bytes, 6 symbolic option bytes, every truncation: total; a decoded context satisfies
/// the constructor's invariants (trace length and LDE domain fit in u32), so lde_domain_size() cannot
/// overflow; re-encoding reproduces the bytes.
fn context_read_total<const MLEN: usize, const TOTAL: usize>(log_len: u8) {
    let mut bytes: [u8; TOTAL] = kani::any();
    bytes[3] = log_len;
    bytes[4] = 0;
    bytes[5] = 0;
    bytes[6] = MLEN as u8;
    let len: usize = kani::any();
    kani::assume(len <= TOTAL);
    let mut rd = SliceReader::new(&bytes[..len]);
    match Context::read_from(&mut rd) {
        Ok(c) => {
            assert!(len == TOTAL);
            assert!(c.trace_info().length() <= u32::MAX as usize);
            let lde = c.lde_domain_size();
            assert!(lde <= u32::MAX as usize);
            assert!(lde == c.trace_info().length() * c.options().blowup_factor());
            assert!(c.field_modulus_bytes().len() == MLEN);
            let _ = c.num_modulus_bits();
            let mut out: Vec<u8> = Vec::new();
            c.write_into(&mut out);
            assert!(out.len() == TOTAL);
            let i: usize = kani::any();
            kani::assume(i < TOTAL);
            assert!(out[i] == bytes[i]);
        },
        Err(_) => {},
    }
}

// the trace-length exponent byte is enumerated over the boundary values of every range check that
// involves it, one harness per value (a symbolic exponent makes 2_usize.pow() * blowup a multiplier
// chain that SAT does not close; TraceInfo::read_from alone is proved for a fully symbolic exponent)
macro_rules! ctx_total {
    ($name:ident, $mlen:expr, $total:expr, $e:expr) => {
        #[kani::proof]
        #[kani::unwind(10)]
        #[kani::stub(alloc::fmt::format, fmt_stub)]
        fn $name() {
            context_read_total::<$mlen, $total>($e);
        }
    };
}
ctx_total!(air_context_read_total_e3_m1, 1, 14, 3);
ctx_total!(air_context_read_total_e25, 8, 21, 25);
ctx_total!(air_context_read_total_e32, 8, 21, 32);
ctx_total!(air_context_read_total_e63, 8, 21, 63);
ctx_total!(air_context_read_total_e64, 8, 21, 64);

/// every context the constructor accepts can be decoded after it has been encoded (f64 base field)
#[kani::proof]
#[kani::unwind(10)]
#[kani::stub(alloc::fmt::format, fmt_stub)]
fn air_context_roundtrip_contract() {
    context_roundtrip_for(3);
    context_roundtrip_for(25);
}

fn context_roundtrip_for(log_len: u32) {
    let (main, aux, rands): (u8, u8, u8) = (kani::any(), kani::any(), kani::any());
    let (main, aux, rands) = (main as usize, aux as usize, rands as usize);
    kani::assume(main > 0 && main + aux <= 255 && (aux != 0 || rands == 0));
    let (q, b, g, ff, rdeg): (u8, u8, u8, u8, u8) = (kani::any(), kani::any(), kani::any(), kani::any(), kani::any());
    kani::assume(q > 0 && b.is_power_of_two() && b >= 2 && b <= 128 && g <= 32);
    kani::assume(ff.is_power_of_two() && ff >= 2 && ff <= 16 && (rdeg as usize + 1).is_power_of_two());
    // Context::new's own precondition: the LDE domain fits in 32 bits
    kani::assume((1usize << log_len) * (b as usize) <= u32::MAX as usize);
    let ti = TraceInfo::new_multi_segment(main, aux, rands, 1usize << log_len, alloc::vec::Vec::new());
    let opts = ProofOptions::new(q as usize, b as usize, g as u32, crate::FieldExtension::Quadratic, ff as usize, rdeg as usize);
    let c = Context::new::<math::fields::f64::BaseElement>(ti, opts);
    let mut out: Vec<u8> = Vec::new();
    c.write_into(&mut out);
    assert!(out.len() == 6 + 1 + 8 + 6);
    let mut rd = SliceReader::new(&out);
    let back = Context::read_from(&mut rd);
    assert!(back.is_ok());
    let back = back.unwrap();
    assert!(back.options() == c.options());
    assert!(back.trace_info().length() == c.trace_info().length());
    assert!(back.trace_info().main_trace_width() == main && back.trace_info().aux_segment_width() == aux);
    assert!(back.field_modulus_bytes() == c.field_modulus_bytes());
    assert!(!rd.has_more_bytes());
}

/// The field elements that seed the public coin bind the proof context: two contexts that differ only in the trace
/// metadata - one symbolic byte versus two symbolic bytes - give different element lists (the metadata bytes are
/// zero-padded into elements, so without the length [a] and [a, 0] would be absorbed identically). Instantiated with
/// the 128-bit field, whose conversions are multiplier-free; shapes are concrete, bytes symbolic.
#[kani::proof]
#[kani::unwind(20)]
#[kani::stub(alloc::fmt::format, fmt_stub)]
fn air_context_to_elements_binding_bounded() {
    use math::{fields::f128::BaseElement, ToElements};
    let a: u8 = kani::any();
    let b: [u8; 2] = kani::any();
    let o = ProofOptions::new(1, 2, 0, crate::FieldExtension::None, 2, 0);
    let c1 = Context::new::<BaseElement>(TraceInfo::new_multi_segment(1, 0, 0, 8, vec![a]), o.clone());
    let c2 = Context::new::<BaseElement>(TraceInfo::new_multi_segment(1, 0, 0, 8, vec![b[0], b[1]]), o);
    let e1: Vec<BaseElement> = c1.to_elements();
    let e2: Vec<BaseElement> = c2.to_elements();
    assert!(e1.len() == e2.len());
    let mut differ = false;
    let mut i = 0;
    while i < e1.len() {
        if e1[i] != e2[i] {
            differ = true;
        }
        i += 1;
    }
    assert!(differ);
}

#[kani::proof]
#[kani::unwind(10)]
#[kani::stub(alloc::fmt::format, fmt_stub)]
fn air_context_canary_must_fail() {
    let bytes: [u8; 14] = kani::any();
    let mut rd = SliceReader::new(&bytes);
    assert!(Context::read_from(&mut rd).is_err());
}
