// Kani contracts for fri/src/verifier/mod.rs with doubles for the channel, the hasher and the coin.
#![allow(unused_imports, dead_code)]
use super::*;
use alloc::vec::Vec;
use crypto::{BatchMerkleProof, ElementHasher, Hasher, RandomCoin};
use math::fields::f64::BaseElement;
include!("stub_hasher_ext.rs");

pub fn fmt_stub(_args: core::fmt::Arguments<'_>) -> alloc::string::String {
    alloc::string::String::new()
}

/// channel double: hands out the commitments and the remainder it was built with (no layer openings:
/// the harnesses below use schedules with zero FRI layers, where none is requested)
struct ChannelDouble {
    commitments: Option<Vec<StubDigest>>,
    remainder: Option<Vec<BaseElement>>,
    partitions: usize,
}
impl VerifierChannel<BaseElement> for ChannelDouble {
    type Hasher = StubHasher;
    fn read_fri_num_partitions(&self) -> usize {
        self.partitions
    }
    fn read_fri_layer_commitments(&mut self) -> Vec<StubDigest> {
        self.commitments.take().unwrap()
    }
    fn take_next_fri_layer_queries(&mut self) -> Vec<BaseElement> {
        unreachable!()
    }
    fn take_next_fri_layer_proof(&mut self) -> BatchMerkleProof<StubHasher> {
        unreachable!()
    }
    fn take_fri_remainder(&mut self) -> Vec<BaseElement> {
        self.remainder.take().unwrap()
    }
}

type V = FriVerifier<BaseElement, ChannelDouble, StubHasher, RecordingCoin>;

/// FriVerifier::new on k = 3 commitments (2 layers + remainder), folding factor 4:
///  * a commitment list whose length is not (number of folding steps of the options) + 1 is refused before anything is
///    absorbed (otherwise verify would run past the layers the channel holds);
///  * every commitment is absorbed by the coin and exactly one challenge is drawn right after it, in order;
///    the challenge stored for layer i is the one drawn after commitment i (Fiat-Shamir order, C04);
///  * DegreeTruncation(depth) is returned iff (d + 1) is not divisible by 4^(depth+1) for some non-final depth (C05).
#[kani::proof]
#[kani::unwind(66)]
#[kani::stub(alloc::fmt::format, fmt_stub)]
fn fri_verifier_new_contract() {
    // degree bounds are enumerated concretely (the domain generator is computed by a 64-step
    // exponentiation whose exponent depends on the degree), with the number of folding steps of the schedule
    // (blowup 8, folding 4, remainder degree 3) computed by hand: 2^k - 1 (accepted), multiples of 4 that are not
    // multiples of 16, one that is not a multiple of 4, and two whose schedule has 3 resp. 1 folding steps
    new_for(63, 2);
    new_for(31, 2);
    new_for(27, 2);
    new_for(19, 2);
    new_for(62, 2);
    new_for(255, 3);
    new_for(11, 1);
}

fn new_for(d: usize, folding_steps: usize) {
    let c: [u64; 3] = kani::any();
    let seed: u64 = kani::any();
    let mut ch = ChannelDouble { commitments: Some(alloc::vec![sd(c[0]), sd(c[1]), sd(c[2])]), remainder: None, partitions: 1 };
    let mut coin = RecordingCoin::fresh(seed);
    let options = FriOptions::new(8, 4, 3);
    assert!(options.num_fri_layers(d.next_power_of_two() * 8) == folding_steps);
    let r = V::new(&mut ch, &mut coin, options, d);
    // expected transcript
    let s0 = stub_merge(seed, c[0]);
    let (s0d, a0) = RecordingCoin::expected_draw(s0);
    let s1 = stub_merge(s0d, c[1]);
    let (s1d, a1) = RecordingCoin::expected_draw(s1);
    let s2 = stub_merge(s1d, c[2]);
    let (s2d, a2) = RecordingCoin::expected_draw(s2);
    let dp1 = d + 1;
    match r {
        Ok(v) => {
            assert!(folding_steps + 1 == 3);
            assert!(dp1 % 4 == 0 && (dp1 / 4) % 4 == 0);
            assert!(coin.reseeds == 3 && coin.draws == 3 && coin.state == s2d);
            assert!(v.layer_alphas.len() == 3);
            assert!(v.layer_alphas[0].inner() == a0 && v.layer_alphas[1].inner() == a1 && v.layer_alphas[2].inner() == a2);
            assert!(v.layer_commitments.len() == 3 && v.layer_commitments[2] == sd(c[2]));
            assert!(v.max_poly_degree() == d && v.domain_size() == d.next_power_of_two() * 8);
        },
        Err(VerifierError::DegreeTruncation(_, n, depth)) => {
            assert!(folding_steps + 1 == 3);
            assert!(n == 4);
            assert!((depth == 0 && dp1 % 4 != 0) || (depth == 1 && dp1 % 4 == 0 && (dp1 / 4) % 4 != 0));
        },
        Err(VerifierError::NumLayerCommitmentsMismatch(expected, actual)) => {
            assert!(actual == 3 && expected == folding_steps + 1 && expected != 3);
            assert!(coin.reseeds == 0 && coin.draws == 0);
        },
        Err(_) => assert!(false),
    }
}

/// verify (zero-layer schedule, one query): acceptance implies that the remainder read from the proof
/// is the one whose commitment was absorbed before the positions were drawn, that it respects the
/// degree bound, and that it agrees with the queried evaluation.  The remainder has 1 coefficient.
#[kani::proof]
#[kani::unwind(66)]
#[kani::stub(alloc::fmt::format, fmt_stub)]
fn fri_verifier_remainder_binding_contract() {
    let commitment: u64 = kani::any();
    let seed: u64 = kani::any();
    let r0: u64 = kani::any();
    kani::assume(r0 < 0xFFFF_FFFF_0000_0001);
    let remainder = alloc::vec![BaseElement::from_mont(r0)];
    let rem_hash = <StubHasher as ElementHasher>::hash_elements(&remainder);
    // degree-0 polynomial, blowup 2, remainder_max_degree 0: domain 2, no layers
    let options = FriOptions::new(2, 2, 0);
    let mut ch = ChannelDouble { commitments: Some(alloc::vec![sd(commitment)]), remainder: Some(remainder), partitions: 1 };
    let mut coin = RecordingCoin::fresh(seed);
    let v = V::new(&mut ch, &mut coin, options, 0).unwrap();
    let eval: u64 = kani::any();
    kani::assume(eval < 0xFFFF_FFFF_0000_0001);
    let pos: usize = kani::any();
    kani::assume(pos < 2);
    let res = v.verify(&mut ch, &[BaseElement::from_mont(eval)], &[pos]);
    kani::cover!(res.is_ok());
    if res.is_ok() {
        assert!(eval == r0); // constant remainder agrees with the queried evaluation
        assert!(sd(commitment) == rem_hash); // and is the committed one
    }
}

/// the same with the remainder commitment *missing* from the commitment list (a prover that withholds
/// it): the remainder is then bound to nothing and must be refused
#[kani::proof]
#[kani::unwind(66)]
#[kani::stub(alloc::fmt::format, fmt_stub)]
fn fri_verifier_remainder_missing_commitment_contract() {
    let r0: u64 = kani::any();
    kani::assume(r0 < 0xFFFF_FFFF_0000_0001);
    let remainder = alloc::vec![BaseElement::from_mont(r0)];
    let options = FriOptions::new(2, 2, 0);
    let mut ch = ChannelDouble { commitments: Some(Vec::new()), remainder: Some(remainder), partitions: 1 };
    let mut coin = RecordingCoin::fresh(kani::any());
    match V::new(&mut ch, &mut coin, options, 0) {
        Ok(v) => {
            let pos: usize = kani::any();
            kani::assume(pos < 2);
            let res = v.verify(&mut ch, &[BaseElement::from_mont(r0)], &[pos]);
            assert!(res.is_err());
        },
        Err(_) => {},
    }
}

/// a remainder with more coefficients than the degree bound allows is refused
#[kani::proof]
#[kani::unwind(66)]
#[kani::stub(alloc::fmt::format, fmt_stub)]
fn fri_verifier_remainder_degree_contract() {
    let remainder = alloc::vec![BaseElement::from_mont(kani::any::<u32>() as u64), BaseElement::from_mont(0)];
    let commitment = <StubHasher as ElementHasher>::hash_elements(&remainder);
    let options = FriOptions::new(2, 2, 0);
    let mut ch = ChannelDouble { commitments: Some(alloc::vec![commitment]), remainder: Some(remainder.clone()), partitions: 1 };
    let mut coin = RecordingCoin::fresh(kani::any());
    let v = V::new(&mut ch, &mut coin, options, 0).unwrap();
    let res = v.verify(&mut ch, &[remainder[0]], &[0]);
    assert!(matches!(res, Err(VerifierError::RemainderDegreeMismatch(_))));
    // mismatching numbers of positions and evaluations are refused before anything else
    let mut ch2 = ChannelDouble { commitments: None, remainder: None, partitions: 1 };
    assert!(matches!(v.verify(&mut ch2, &[remainder[0]], &[0, 1]), Err(VerifierError::NumPositionEvaluationMismatch(2, 1))));
}

#[kani::proof]
#[kani::unwind(66)]
#[kani::stub(alloc::fmt::format, fmt_stub)]
fn fri_verifier_canary_must_fail() {
    let c: [u64; 3] = kani::any();
    let mut ch = ChannelDouble { commitments: Some(alloc::vec![sd(c[0]), sd(c[1]), sd(c[2])]), remainder: None, partitions: 1 };
    let mut coin = RecordingCoin::fresh(kani::any());
    let r = V::new(&mut ch, &mut coin, FriOptions::new(8, 4, 3), 63);
    assert!(r.is_err());
}
