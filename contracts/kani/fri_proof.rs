// Kani contracts for fri/src/proof.rs: FriProof / FriProofLayer on untrusted bytes (C06), canonical
// decoding (C03) and round trip (C12). Vector lengths are enumerated concretely, contents are symbolic.
#![allow(unused_imports, dead_code)]
use super::*;
use alloc::vec::Vec;
use math::fields::f64::BaseElement;
use utils::{ByteReader, Deserializable, Serializable, SliceReader};
include!("stub_hasher_ext.rs");

pub fn fmt_stub(_args: core::fmt::Arguments<'_>) -> alloc::string::String {
    alloc::string::String::new()
}

/// FriProof with zero layers: [0] [rem_len u16] [remainder bytes] [partitions byte]
fn proof_header<const RLEN: usize, const TOTAL: usize>(k: u8) {
    let mut bytes: [u8; TOTAL] = kani::any();
    // the partition byte is enumerated concretely (a symbolic exponent makes 2usize.pow() a multiplier chain)
    bytes[TOTAL - 1] = k;
    bytes[0] = 0;
    bytes[1] = RLEN as u8;
    bytes[2] = 0;
    let mut rd = SliceReader::new(&bytes);
    match FriProof::read_from(&mut rd) {
        Ok(p) => {
            assert!(!rd.has_more_bytes());
            // the partition count is 2^k for the byte k carried in the proof: must not overflow
            let parts = p.num_partitions();
            assert!(parts.is_power_of_two());
            assert!(p.num_remainder_elements::<BaseElement>() == RLEN / 8);
            match p.parse_remainder::<BaseElement>() {
                Ok(r) => assert!(RLEN % 8 == 0 && r.len() == RLEN / 8 && r.len().is_power_of_two()),
                Err(_) => {},
            }
            let mut out: Vec<u8> = Vec::new();
            p.write_into(&mut out);
            assert!(out.len() == TOTAL);
            let i: usize = kani::any();
            kani::assume(i < TOTAL);
            assert!(out[i] == bytes[i]);
        },
        Err(_) => {},
    }
}

macro_rules! hdr {
    ($name:ident, $r:expr, $t:expr, $k:expr) => {
        #[kani::proof]
        #[kani::unwind(12)]
        #[kani::stub(alloc::fmt::format, fmt_stub)]
        fn $name() {
            proof_header::<$r, $t>($k);
        }
    };
}
hdr!(fri_proof_header_r8_k0_bounded, 8, 12, 0);
hdr!(fri_proof_header_r8_k63_bounded, 8, 12, 63);
hdr!(fri_proof_header_r8_k64_bounded, 8, 12, 64);
hdr!(fri_proof_header_r8_k255_bounded, 8, 12, 255);
hdr!(fri_proof_header_r9_bounded, 9, 13, 1);
hdr!(fri_proof_header_r0_bounded, 0, 4, 1);

/// FriProofLayer: read_from + parse (folding factor 2, one query of two elements, 2 path bytes):
/// total; Ok only if no byte is left over; the leaf is recomputed from the opened values
#[kani::proof]
#[kani::unwind(12)]
#[kani::stub(alloc::fmt::format, fmt_stub)]
fn fri_proof_layer_bounded() {
    let mut bytes: [u8; 4 + 16 + 4 + 2] = kani::any();
    bytes[0] = 16;
    bytes[1] = 0;
    bytes[2] = 0;
    bytes[3] = 0;
    bytes[20] = 2;
    bytes[21] = 0;
    bytes[22] = 0;
    bytes[23] = 0;
    let mut rd = SliceReader::new(&bytes);
    let layer = FriProofLayer::read_from(&mut rd).unwrap();
    assert!(!rd.has_more_bytes());
    let mut out: Vec<u8> = Vec::new();
    layer.write_into(&mut out);
    assert!(out.len() == 26);
    match layer.parse::<StubHasher, BaseElement>(8, 2) {
        Ok((vals, mp)) => {
            assert!(vals.len() == 2 && mp.leaves.len() == 1 && mp.depth == 3);
            // the leaf is the hash of the opened values, not something carried in the proof
            assert!(mp.leaves[0] == <StubHasher as crypto::ElementHasher>::hash_elements(&vals));
            // the two path bytes were consumed completely: one node vector with zero digests
            assert!(bytes[24] == 1 && bytes[25] == 0);
        },
        Err(_) => {},
    }
}

#[kani::proof]
#[kani::unwind(12)]
#[kani::stub(alloc::fmt::format, fmt_stub)]
fn fri_proof_canary_must_fail() {
    let mut bytes: [u8; 12] = kani::any();
    bytes[0] = 0;
    bytes[1] = 8;
    bytes[2] = 0;
    let mut rd = SliceReader::new(&bytes);
    assert!(FriProof::read_from(&mut rd).is_err());
}
