// Kani contracts for air/src/air/assertions/mod.rs: which steps an assertion names, overlap, validation
#![allow(unused_imports, dead_code)]
use super::*;
use math::fields::f64::BaseElement;

pub fn fmt_stub(_args: core::fmt::Arguments<'_>) -> alloc::string::String {
    alloc::string::String::new()
}

/// does the assertion (first_step, stride) name `step` (< n)?  single: stride == 0
fn names(first: usize, stride: usize, step: usize) -> bool {
    if stride == 0 {
        step == first
    } else {
        step >= first && (step - first) % stride == 0
    }
}

fn any_shape(n: usize) -> (usize, usize) {
    // (first_step, stride) of a well-formed assertion for trace length n
    let first: usize = kani::any();
    let ls: u32 = kani::any();
    let single: bool = kani::any();
    if single {
        kani::assume(first < n);
        (first, 0)
    } else {
        kani::assume(ls >= 1 && ls <= 5);
        kani::assume((1usize << ls) <= n);
        let stride = 1usize << ls;
        kani::assume(first < stride);
        (first, stride)
    }
}

/// overlaps_with(a, b) <=> some step < n of the same column is named by both (n in {8, 16, 32})
#[kani::proof]
#[kani::unwind(34)]
fn air_assertion_overlap_contract() {
    let ln: u32 = kani::any();
    kani::assume(ln >= 3 && ln <= 5);
    let n = 1usize << ln;
    let (f1, s1) = any_shape(n);
    let (f2, s2) = any_shape(n);
    let same_col: bool = kani::any();
    let a = Assertion::<BaseElement> { column: 1, first_step: f1, stride: s1, values: alloc::vec![BaseElement::ZERO] };
    let b = Assertion::<BaseElement> { column: if same_col { 1 } else { 2 }, first_step: f2, stride: s2, values: alloc::vec![BaseElement::ZERO] };
    let mut common = false;
    let mut step = 0;
    while step < n {
        if names(f1, s1, step) && names(f2, s2, step) {
            common = true;
        }
        step += 1;
    }
    kani::cover!(common && s1 != s2 && s1 != 0 && s2 != 0);
    assert!(a.overlaps_with(&b) == (same_col && common));
    assert!(b.overlaps_with(&a) == (same_col && common));
}

/// validate_trace_length / get_num_steps for single and periodic assertions
#[kani::proof]
#[kani::stub(alloc::fmt::format, fmt_stub)]
fn air_assertion_validate_contract() {
    let n: usize = kani::any();
    let first: usize = kani::any();
    // (steps up to 2^40: the error path computes (first_step + 1).next_power_of_two() for its message)
    kani::assume(first < (1usize << 40));
    let ls: u32 = kani::any();
    kani::assume(ls >= 1 && ls < 63);
    let stride = 1usize << ls;
    let single = Assertion::<BaseElement>::single(0, first, BaseElement::ZERO);
    assert!(single.validate_trace_length(n).is_ok() == (n.is_power_of_two() && first < n));
    kani::assume(first < stride);
    let periodic = Assertion::<BaseElement>::periodic(0, first, stride, BaseElement::ZERO);
    assert!(periodic.validate_trace_length(n).is_ok() == (n.is_power_of_two() && stride <= n));
    if n.is_power_of_two() && stride <= n {
        assert!(periodic.get_num_steps(n) == n / stride);
    }
    if n.is_power_of_two() && first < n {
        assert!(single.get_num_steps(n) == 1);
    }
}

/// sequence assertions: a one-value sequence is a single assertion (names exactly one step); a longer
/// one names values.len() steps first_step + k * stride and is valid exactly for n == values.len() * stride
#[kani::proof]
#[kani::unwind(6)]
#[kani::stub(alloc::fmt::format, fmt_stub)]
fn air_assertion_sequence_contract() {
    let ls: u32 = kani::any();
    kani::assume(ls >= 1 && ls <= 20);
    let stride = 1usize << ls;
    let first: usize = kani::any();
    kani::assume(first < stride);
    let n: usize = kani::any();
    let one = Assertion::<BaseElement>::sequence(3, first, stride, alloc::vec![BaseElement::ONE]);
    assert!(one.is_single() && !one.is_periodic() && !one.is_sequence());
    assert!(one.stride() == 0 && one.first_step() == first && one.column() == 3);
    assert!(one.validate_trace_length(n).is_ok() == (n.is_power_of_two() && first < n));
    let four = Assertion::<BaseElement>::sequence(3, first, stride, alloc::vec![BaseElement::ONE; 4]);
    assert!(four.is_sequence() && !four.is_single() && !four.is_periodic());
    assert!(four.stride() == stride);
    assert!(four.validate_trace_length(n).is_ok() == (n.is_power_of_two() && n == 4 * stride));
    if n == 4 * stride {
        assert!(four.get_num_steps(n) == 4);
    }
    // a one-value sequence and the single assertion on the same cell overlap; on another step they do not
    let s = Assertion::<BaseElement>::single(3, first, BaseElement::ZERO);
    assert!(one.overlaps_with(&s) && s.overlaps_with(&one));
}

#[kani::proof]
#[kani::unwind(34)]
fn air_assertions_canary_must_fail() {
    let (f1, s1) = any_shape(8);
    let (f2, s2) = any_shape(8);
    let a = Assertion::<BaseElement> { column: 1, first_step: f1, stride: s1, values: alloc::vec![BaseElement::ZERO] };
    let b = Assertion::<BaseElement> { column: 1, first_step: f2, stride: s2, values: alloc::vec![BaseElement::ZERO] };
    assert!(!a.overlaps_with(&b));
}
