// Kani contracts for air/src/air/trace_info.rs
#![allow(unused_imports, dead_code)]
use super::*;
use utils::{ByteReader, Deserializable, Serializable, SliceReader};

pub fn fmt_stub(_args: core::fmt::Arguments<'_>) -> alloc::string::String {
    alloc::string::String::new()
}

/// assertion set of TraceInfo::new_multi_segment as a predicate
pub fn valid_trace_info(main: usize, aux: usize, rands: usize, len: usize, meta_len: usize) -> bool {
    len >= 8 && len.is_power_of_two() && meta_len <= 65535
        && main > 0 && main <= 255 && aux <= 255 && main + aux <= 255
        && (aux != 0 || rands == 0) && rands <= 255
}

/// read_from over every header (6 bytes) + up to 2 metadata bytes, every truncation: total; Ok exactly
/// for encodings of constructor-valid values; decoded value re-encodes to the bytes consumed.
#[kani::proof]
#[kani::unwind(10)]
#[kani::stub(alloc::fmt::format, fmt_stub)]
fn air_trace_info_read_total_contract() {
    let mut bytes: [u8; 9] = kani::any();
    // metadata length restricted to 0..=2 (high byte 0); everything else symbolic
    kani::assume(bytes[5] == 0 && bytes[4] <= 2);
    let len: usize = kani::any();
    kani::assume(len <= 9);
    let mut rd = SliceReader::new(&bytes[..len]);
    let r = TraceInfo::read_from(&mut rd);
    let meta_len = bytes[4] as usize;
    let valid = len >= 6 + meta_len
        && bytes[3] < 64
        && valid_trace_info(bytes[0] as usize, bytes[1] as usize, bytes[2] as usize,
                            1usize << (bytes[3] & 63), meta_len);
    match r {
        Ok(t) => {
            assert!(valid);
            assert!(t.main_trace_width() == bytes[0] as usize);
            assert!(t.aux_segment_width() == bytes[1] as usize);
            assert!(t.get_num_aux_segment_rand_elements() == bytes[2] as usize);
            assert!(t.length() == 1usize << bytes[3]);
            assert!(t.meta().len() == meta_len);
            let mut out: Vec<u8> = Vec::new();
            t.write_into(&mut out);
            assert!(out.len() == 6 + meta_len);
            let i: usize = kani::any();
            kani::assume(i < 6 + meta_len);
            assert!(out[i] == bytes[i]);
        },
        Err(_) => assert!(!valid),
    }
}

/// every value the constructor accepts can be decoded after it has been encoded (metadata <= 1 byte)
#[kani::proof]
#[kani::unwind(10)]
#[kani::stub(alloc::fmt::format, fmt_stub)]
fn air_trace_info_roundtrip_contract() {
    // trace length exponents are enumerated concretely (boundary values of the accepted range 3..=63):
    // a symbolic exponent turns 2_usize.pow() into a chain of symbolic multipliers SAT cannot close
    // the metadata shape (absent / one symbolic byte) is concrete per call for the same reason
    roundtrip_for(3, false);
    roundtrip_for(3, true);
    roundtrip_for(32, false);
    roundtrip_for(63, false);
    roundtrip_for(63, true);
}

fn roundtrip_for(log_len: u32, has_meta: bool) {
    let (main, aux, rands): (u16, u16, u16) = (kani::any(), kani::any(), kani::any());
    let (main, aux, rands) = (main as usize, aux as usize, rands as usize);
    let tlen = 1usize << log_len;
    let mb: u8 = kani::any();
    let meta: Vec<u8> = if has_meta { vec![mb] } else { vec![] };
    kani::assume(valid_trace_info(main, aux, rands, tlen, meta.len()));
    kani::cover!(main + aux == 255);
    kani::cover!(aux > 0 && rands == 0);
    let t = TraceInfo::new_multi_segment(main, aux, rands, tlen, meta);
    let mut out: Vec<u8> = Vec::new();
    t.write_into(&mut out);
    assert!(out.len() == 6 + has_meta as usize);
    let mut rd = SliceReader::new(&out);
    let back = TraceInfo::read_from(&mut rd);
    assert!(back.is_ok());
    let back = back.unwrap();
    assert!(back.main_trace_width() == main && back.aux_segment_width() == aux);
    assert!(back.get_num_aux_segment_rand_elements() == rands && back.length() == tlen);
    assert!(back.meta().len() == has_meta as usize);
    if has_meta {
        assert!(back.meta()[0] == mb);
    }
    assert!(!rd.has_more_bytes());
}

/// the narrowing casts in write_into are lossless for every constructor-valid value
#[kani::proof]
fn air_trace_info_writer_casts_contract() {
    let (main, aux, rands, meta_len): (usize, usize, usize, usize) = (kani::any(), kani::any(), kani::any(), kani::any());
    let log_len: u32 = kani::any();
    kani::assume(log_len < 64);
    let tlen = 1usize << log_len;
    kani::assume(valid_trace_info(main, aux, rands, tlen, meta_len));
    assert!(main as u8 as usize == main && aux as u8 as usize == aux && rands as u8 as usize == rands);
    assert!(meta_len as u16 as usize == meta_len);
    assert!(tlen.ilog2() as u8 as u32 == log_len);
}

#[kani::proof]
#[kani::unwind(10)]
#[kani::stub(alloc::fmt::format, fmt_stub)]
fn air_trace_info_canary_must_fail() {
    let bytes: [u8; 6] = kani::any();
    let mut rd = SliceReader::new(&bytes);
    assert!(TraceInfo::read_from(&mut rd).is_err());
}
