// Kani contracts for crypto/src/hash/mds/mds_f64_12x12.rs (frequency-domain MDS multiplication)
#![allow(unused_imports, dead_code)]
use super::*;

const M: u64 = 0xFFFF_FFFF_0000_0001;

/// for every state of 12 canonical elements: no i64/u64 overflow anywhere in the frequency-domain path
/// (Kani's automatic overflow checks on the real code) and every output element is canonical (< M)
#[kani::proof]
#[kani::unwind(13)]
fn mds12_canonical_no_overflow_contract() {
    let raw: [u64; 12] = kani::any();
    let mut state = [BaseElement::ZERO; 12];
    let mut i = 0;
    while i < 12 {
        kani::assume(raw[i] < M);
        state[i] = BaseElement::from_mont(raw[i]);
        i += 1;
    }
    mds_multiply(&mut state);
    let mut i = 0;
    while i < 12 {
        assert!(state[i].inner() < M);
        i += 1;
    }
}

/// the MDS map is linear with the documented circulant first row [7, 23, 8, 26, 13, 10, 9, 7, 6, 22, 21, 8]:
/// on each unit vector e_j (concrete) the result is column j of the matrix
#[kani::proof]
#[kani::unwind(13)]
fn mds12_unit_vectors_contract() {
    const ROW: [u64; 12] = [7, 23, 8, 26, 13, 10, 9, 7, 6, 22, 21, 8];
    // (a symbolic factor does not finish for the 12x12 instance; two concrete factors)
    let pick: bool = kani::any();
    let c: u32 = if pick { 1 } else { u32::MAX };
    let mut j = 0;
    while j < 12 {
        let mut state = [BaseElement::ZERO; 12];
        // (linearity is over raw words as well, so raw words are compared)
        state[j] = BaseElement::from_mont(c as u64);
        mds_multiply(&mut state);
        let mut i = 0;
        while i < 12 {
            // circulant: M[i][j] = ROW[(j - i) mod n]
            assert!(state[i].inner() == ROW[(j + 12 - i) % 12] * (c as u64));
            i += 1;
        }
        j += 1;
    }
}

// (a full row-product contract against the dot product with the circulant row was tried: one output row over a
// fully symbolic state does not finish in 3600 s; see DESIGN.md 9.2)

/// one non-zero coordinate carrying a fully symbolic canonical word: the result is that word times the
/// corresponding column of the documented circulant matrix, reduced mod M (reference: 128-bit product and
/// an independent reduction) - exercises every carry of the final fold
fn unit64(j: usize) {
    const ROW: [u64; 12] = [7, 23, 8, 26, 13, 10, 9, 7, 6, 22, 21, 8];
    let c: u64 = kani::any();
    kani::assume(c < M);
    let mut state = [BaseElement::ZERO; 12];
    state[j] = BaseElement::from_mont(c);
    mds_multiply(&mut state);
    let mut i = 0;
    while i < 12 {
        let p = (ROW[(j + 12 - i) % 12] as u128) * (c as u128);
        let hi = p >> 64;
        let lo = (p as u64) as u128;
        let mut t = lo + (hi << 32) - hi;
        let m = M as u128;
        if t >= m {
            t -= m;
        }
        if t >= m {
            t -= m;
        }
        assert!(state[i].inner() as u128 == t);
        i += 1;
    }
}

#[kani::proof]
#[kani::unwind(13)]
fn mds12_unit_vector64_j3_contract() {
    unit64(3);
}

#[kani::proof]
#[kani::unwind(13)]
fn mds12_canary_must_fail() {
    let mut state = [BaseElement::ZERO; 12];
    state[0] = BaseElement::from_mont(kani::any::<u32>() as u64);
    mds_multiply(&mut state);
    assert!(state[1].inner() == 0);
}
