// Kani contracts for utils/core/src/serde/byte_writer.rs (+ read_usize of byte_reader.rs):
// the variable-length size encoding (vint64).
#![allow(unused_imports, dead_code)]
use super::*;
use crate::{ByteReader, Deserializable, Serializable, SliceReader};
use alloc::vec::Vec;

pub fn fmt_stub(_args: core::fmt::Arguments<'_>) -> alloc::string::String {
    alloc::string::String::new()
}

/// encoded_len(v) is the least L in 1..=9 with v < 2^(7L) (L = 9 for v >= 2^56)
#[kani::proof]
fn utils_encoded_len_contract() {
    let v: u64 = kani::any();
    let l = encoded_len(v);
    assert!(1 <= l && l <= 9);
    if l < 9 {
        assert!(v < (1u64 << (7 * l)));
    }
    if l > 1 {
        assert!(v >= (1u64 << (7 * (l - 1))));
    }
}

/// write_usize(v) writes exactly encoded_len(v) bytes, the first byte announces that length
/// (trailing zeros + 1), and read_usize returns v consuming exactly those bytes.
#[kani::proof]
#[kani::stub(alloc::fmt::format, fmt_stub)]
fn utils_usize_roundtrip_contract() {
    let v: usize = kani::any();
    let mut buf: Vec<u8> = Vec::new();
    buf.write_usize(v);
    let l = encoded_len(v as u64);
    assert!(buf.len() == l);
    assert!((buf[0].trailing_zeros() as usize + 1 == l) || (l == 9 && buf[0] == 0));
    let mut rd = SliceReader::new(&buf);
    let back = rd.read_usize();
    assert!(back.is_ok());
    assert!(back.unwrap() == v);
    assert!(!rd.has_more_bytes());
}

/// the Serializable / Deserializable impls for usize are write_usize / read_usize
#[kani::proof]
#[kani::stub(alloc::fmt::format, fmt_stub)]
fn utils_usize_serializable_contract() {
    let v: usize = kani::any();
    let mut buf: Vec<u8> = Vec::new();
    v.write_into(&mut buf);
    assert!(buf.len() == encoded_len(v as u64));
    let mut rd = SliceReader::new(&buf);
    assert!(usize::read_from(&mut rd).unwrap() == v);
    assert!(!rd.has_more_bytes());
}

/// trailing bytes after an encoded usize are left unread
#[kani::proof]
#[kani::stub(alloc::fmt::format, fmt_stub)]
fn utils_usize_then_more_contract() {
    let v: usize = kani::any();
    let t: u8 = kani::any();
    let mut buf: Vec<u8> = Vec::new();
    buf.write_usize(v);
    buf.write_u8(t);
    let mut rd = SliceReader::new(&buf);
    assert!(rd.read_usize().unwrap() == v);
    assert!(rd.read_u8().unwrap() == t);
    assert!(!rd.has_more_bytes());
}

/// read_usize on arbitrary bytes: total (never panics); Ok(v) implies the announced number of bytes
/// was available and is exactly what was consumed.
#[kani::proof]
#[kani::stub(alloc::fmt::format, fmt_stub)]
fn utils_read_usize_total_contract() {
    let bytes: [u8; 10] = kani::any();
    let len: usize = kani::any();
    kani::assume(len <= 10);
    let mut rd = SliceReader::new(&bytes[..len]);
    let r = rd.read_usize();
    if len == 0 {
        assert!(r.is_err());
    } else {
        let need = bytes[0].trailing_zeros() as usize + 1;
        match r {
            Ok(_) => {
                assert!(need <= len);
                // exactly `need` bytes consumed
                let mut left = 0usize;
                while rd.has_more_bytes() && left < 11 {
                    let _ = rd.read_u8();
                    left += 1;
                }
                assert!(left == len - need);
            },
            Err(_) => assert!(need > len),
        }
    }
}

#[kani::proof]
fn utils_ints_roundtrip_contract() {
    let a: u8 = kani::any();
    let b: u16 = kani::any();
    let c: u32 = kani::any();
    let d: u64 = kani::any();
    let e: u128 = kani::any();
    let f: bool = kani::any();
    let mut buf: Vec<u8> = Vec::new();
    a.write_into(&mut buf);
    b.write_into(&mut buf);
    c.write_into(&mut buf);
    d.write_into(&mut buf);
    e.write_into(&mut buf);
    buf.write_bool(f);
    assert!(buf.len() == 1 + 2 + 4 + 8 + 16 + 1);
    let mut rd = SliceReader::new(&buf);
    assert!(u8::read_from(&mut rd).unwrap() == a);
    assert!(u16::read_from(&mut rd).unwrap() == b);
    assert!(u32::read_from(&mut rd).unwrap() == c);
    assert!(u64::read_from(&mut rd).unwrap() == d);
    assert!(u128::read_from(&mut rd).unwrap() == e);
    assert!(rd.read_bool().unwrap() == f);
    assert!(!rd.has_more_bytes());
}

#[kani::proof]
#[kani::stub(alloc::fmt::format, fmt_stub)]
fn utils_option_u8_roundtrip_contract() {
    let o: Option<u8> = kani::any();
    let mut buf: Vec<u8> = Vec::new();
    o.write_into(&mut buf);
    assert!(buf.len() == if o.is_some() { 2 } else { 1 });
    let mut rd = SliceReader::new(&buf);
    let back = Option::<u8>::read_from(&mut rd).unwrap();
    assert!(back == o);
    assert!(!rd.has_more_bytes());
}

/// Vec<u8> with at most 3 elements (bounded in length, complete in content)
#[kani::proof]
#[kani::unwind(5)]
#[kani::stub(alloc::fmt::format, fmt_stub)]
fn utils_vec_u8_roundtrip_bounded() {
    let data: [u8; 2] = kani::any();
    let n: usize = kani::any();
    kani::assume(n <= 2);
    let v: Vec<u8> = data[..n].to_vec();
    let mut buf: Vec<u8> = Vec::new();
    v.write_into(&mut buf);
    assert!(buf.len() == 1 + n);
    let mut rd = SliceReader::new(&buf);
    let back = Vec::<u8>::read_from(&mut rd).unwrap();
    assert!(back == v);
    assert!(!rd.has_more_bytes());
}

#[kani::proof]
fn utils_writer_canary_must_fail() {
    let v: u64 = kani::any();
    assert!(encoded_len(v) < 9);
}
