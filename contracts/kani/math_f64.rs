// Kani contracts for math/src/field/f64/mod.rs. This file is compiled as a child module of the real
// source file in the scratch copy (cfg(kani) only), so private items are reachable through `super::`.
// Every harness is loop-free over full-domain symbolic inputs unless its name ends in `_bounded`.
#![allow(unused_imports, dead_code)]
use super::*;
use utils::SliceReader;

const TWO64M: u128 = (M as u128) << 64;

pub fn fmt_stub(_args: core::fmt::Arguments<'_>) -> alloc::string::String {
    alloc::string::String::new()
}

/// "r * 2^64 == x (mod M)" in witness form: q = xl * M^-1 mod 2^64 (M^-1 = 2^32 + 1), m = q * M and
/// x - m == r * 2^64, or x - m + M * 2^64 == r * 2^64 when x < m. Shift/add only, no multiplier, no `%`.
fn mont_witness(x: u128, r: u64) -> bool {
    let xl = x as u64;
    let q = xl.wrapping_add(xl << 32);
    let m: u128 = ((q as u128) << 64) - ((q as u128) << 32) + (q as u128);
    let rr = (r as u128) << 64;
    if x >= m {
        x - m == rr
    } else {
        x.wrapping_sub(m).wrapping_add(TWO64M) == rr
    }
}

/// residue denoted by a raw word: x * 2^-64 mod M (the real conversion function; its own contract is
/// `f64_mont_to_int_contract`)
fn val(x: u64) -> u64 {
    mont_to_int(x)
}

fn addm(a: u64, b: u64) -> u64 {
    let s = a as u128 + b as u128;
    (if s >= M as u128 { s - M as u128 } else { s }) as u64
}

fn subm(a: u64, b: u64) -> u64 {
    if a >= b {
        a - b
    } else {
        (a as u128 + M as u128 - b as u128) as u64
    }
}

fn any_rep() -> u64 {
    let a: u64 = kani::any();
    kani::assume(a < M);
    a
}

// ---- reductions --------------------------------------------------------------------------------

#[kani::proof]
fn f64_mont_red_cst_contract() {
    let x: u128 = kani::any();
    kani::assume(x < TWO64M);
    kani::cover!(x > (1u128 << 127));
    let r = mont_red_cst(x);
    assert!(r < M);
    assert!(mont_witness(x, r));
}

#[kani::proof]
fn f64_mont_to_int_contract() {
    let x: u64 = kani::any();
    let r = mont_to_int(x);
    assert!(r < M);
    assert!(mont_witness(x as u128, r));
    assert!(r == mont_red_cst(x as u128));
}

/// mont_to_int is injective on [0, M): distinct canonical raw words denote distinct residues
#[kani::proof]
fn f64_mont_to_int_injective() {
    let a = any_rep();
    let b = any_rep();
    kani::assume(mont_to_int(a) == mont_to_int(b));
    assert!(a == b);
}

// ---- constructors and conversions ---------------------------------------------------------------

#[kani::proof]
fn f64_new_contract() {
    let v: u64 = kani::any();
    // (functional part: Verus unit f64, `new`: val(new(v)) == v mod M)
    let e = BaseElement::new(v);
    assert!(e.0 < M);
    // as_int (both the inherent and the StarkField method) is the canonical conversion
    assert!(e.as_int() == mont_to_int(e.0));
    assert!(StarkField::as_int(&e) == mont_to_int(e.0));
}

#[kani::proof]
fn f64_from_small_ints_contract() {
    let a: u8 = kani::any();
    let b: u16 = kani::any();
    let c: u32 = kani::any();
    let d: bool = kani::any();
    // canonical output; the functional part (from(v) denotes v) is the Verus unit f64
    assert!(BaseElement::from(a).0 < M);
    assert!(BaseElement::from(b).0 < M);
    assert!(BaseElement::from(c).0 < M);
    assert!(BaseElement::from(d).0 < M);
    // 8-bit inputs: small enough for SAT to decide the residue itself
    assert!(BaseElement::from(a).as_int() == a as u64);
    assert!(BaseElement::from(d).as_int() == d as u64);
}

#[kani::proof]
#[kani::stub(alloc::fmt::format, fmt_stub)]
fn f64_try_from_ints_contract() {
    let v: u64 = kani::any();
    match BaseElement::try_from(v) {
        Ok(e) => assert!(v < M && e.0 < M),
        Err(_) => assert!(v >= M),
    }
    let w: u128 = kani::any();
    match BaseElement::try_from(w) {
        Ok(e) => assert!(w < M as u128 && e.0 < M),
        Err(_) => assert!(w >= M as u128),
    }
    let bytes: [u8; 8] = kani::any();
    let bv = u64::from_le_bytes(bytes);
    match BaseElement::try_from(bytes) {
        Ok(e) => assert!(bv < M && e.0 < M),
        Err(_) => assert!(bv >= M),
    }
}

#[kani::proof]
#[kani::stub(alloc::fmt::format, fmt_stub)]
fn f64_try_from_slice_contract() {
    let bytes: [u8; 10] = kani::any();
    let len: usize = kani::any();
    kani::assume(len <= 10);
    kani::cover!(len == 8);
    let r = BaseElement::try_from(&bytes[..len]);
    let rr = <BaseElement as Randomizable>::from_random_bytes(&bytes[..len]);
    let mut b8 = [0u8; 8];
    b8.copy_from_slice(&bytes[..8]);
    let v = u64::from_le_bytes(b8);
    match r {
        Ok(e) => {
            assert!(len == 8 && v < M && e.0 < M);
            assert!(rr.is_some() && rr.unwrap().0 < M);
        },
        Err(_) => {
            assert!(len != 8 || v >= M);
            assert!(rr.is_none());
        },
    }
}

/// from_random_bytes of the quadratic and cubic extensions: Some exactly for byte strings of the element
/// size whose every 8-byte coordinate is canonical; the coordinates are canonical words
#[kani::proof]
#[kani::stub(alloc::fmt::format, fmt_stub)]
fn f64_ext_from_random_bytes_contract() {
    use crate::field::{CubeExtension, QuadExtension};
    let bytes: [u8; 26] = kani::any();
    let len: usize = kani::any();
    kani::assume(len <= 26);
    kani::cover!(len == 16);
    kani::cover!(len == 24);
    let mut w = [0u64; 3];
    let mut k = 0;
    while k < 3 {
        let mut b8 = [0u8; 8];
        b8.copy_from_slice(&bytes[8 * k..8 * k + 8]);
        w[k] = u64::from_le_bytes(b8);
        k += 1;
    }
    let q = <QuadExtension<BaseElement> as Randomizable>::from_random_bytes(&bytes[..len]);
    match q {
        Some(e) => {
            assert!(len == 16 && w[0] < M && w[1] < M);
            let c = e.to_base_elements();
            assert!(c[0].0 < M && c[1].0 < M);
        },
        None => assert!(len != 16 || w[0] >= M || w[1] >= M),
    }
    let c3 = <CubeExtension<BaseElement> as Randomizable>::from_random_bytes(&bytes[..len]);
    match c3 {
        Some(e) => {
            assert!(len == 24 && w[0] < M && w[1] < M && w[2] < M);
            let c = e.to_base_elements();
            assert!(c[0].0 < M && c[1].0 < M && c[2].0 < M);
        },
        None => assert!(len != 24 || w[0] >= M || w[1] >= M || w[2] >= M),
    }
}

#[kani::proof]
#[kani::stub(alloc::fmt::format, fmt_stub)]
fn f64_into_ints_contract() {
    let a = BaseElement(any_rep());
    let v = a.as_int();
    assert!(u64::from(a) == v);
    assert!(u128::from(a) == v as u128);
    match u32::try_from(a) {
        Ok(x) => assert!(x as u64 == v),
        Err(_) => assert!(v > u32::MAX as u64),
    }
    match u16::try_from(a) {
        Ok(x) => assert!(x as u64 == v),
        Err(_) => assert!(v > u16::MAX as u64),
    }
    match u8::try_from(a) {
        Ok(x) => assert!(x as u64 == v),
        Err(_) => assert!(v > u8::MAX as u64),
    }
    match bool::try_from(a) {
        Ok(x) => assert!(x as u64 == v),
        Err(_) => assert!(v > 1),
    }
}

// ---- additive structure -------------------------------------------------------------------------

#[kani::proof]
fn f64_add_contract() {
    let (a, b) = (any_rep(), any_rep());
    let r = BaseElement(a) + BaseElement(b);
    assert!(r.0 < M);
    assert!(r.0 == addm(a, b));
    let mut c = BaseElement(a);
    c += BaseElement(b);
    assert!(c.0 == r.0);
}

#[kani::proof]
fn f64_sub_contract() {
    let (a, b) = (any_rep(), any_rep());
    let r = BaseElement(a) - BaseElement(b);
    assert!(r.0 < M);
    assert!(r.0 == subm(a, b));
    let mut c = BaseElement(a);
    c -= BaseElement(b);
    assert!(c.0 == r.0);
}

#[kani::proof]
fn f64_neg_contract() {
    let a = any_rep();
    let r = -BaseElement(a);
    assert!(r.0 < M);
    assert!(r.0 == subm(0, a));
}

#[kani::proof]
fn f64_double_contract() {
    let a = any_rep();
    let r = BaseElement(a).double();
    assert!(r.0 < M);
    assert!(r.0 == addm(a, a));
}

#[kani::proof]
fn f64_constants_contract() {
    assert!(BaseElement::ZERO.0 == 0 && BaseElement::ZERO.as_int() == 0);
    assert!(BaseElement::ONE.0 < M && BaseElement::ONE.as_int() == 1);
    assert!(<BaseElement as StarkField>::MODULUS == 0xFFFF_FFFF_0000_0001);
    assert!(<BaseElement as StarkField>::MODULUS_BITS == 64);
    assert!(<BaseElement as StarkField>::GENERATOR.as_int() == 7);
    assert!(<BaseElement as StarkField>::TWO_ADICITY == 32);
    // M - 1 = 2^32 * (2^32 - 1), 2^32 - 1 odd
    assert!((M - 1) >> 32 == 0xFFFF_FFFF && ((M - 1) & 0xFFFF_FFFF) == 0);
    assert!(<BaseElement as StarkField>::TWO_ADIC_ROOT_OF_UNITY.as_int() == 7277203076849721926);
    assert!(<BaseElement as FieldElement>::ELEMENT_BYTES == 8);
    assert!(<BaseElement as FieldElement>::EXTENSION_DEGREE == 1);
    let mb = <BaseElement as StarkField>::get_modulus_le_bytes();
    assert!(mb.len() == 8);
    let mut b8 = [0u8; 8];
    b8.copy_from_slice(&mb);
    assert!(u64::from_le_bytes(b8) == M);
    // R2 = 2^128 mod M: 2^64 = 2^32 - 1 (mod M), so 2^128 = (2^32 - 1)^2 mod M
    let t: u128 = ((1u128 << 32) - 1) * ((1u128 << 32) - 1);
    assert!((t % (M as u128)) as u64 == R2);
}

// ---- multiplication -----------------------------------------------------------------------------

/// mul_small(a, k): canonical output and r = a.0 * k (mod M) in witness form:
/// a.0 * k = hi * 2^64 + lo, 2^64 = 2^32 - 1 (mod M), so r == lo + hi * (2^32 - 1) - j * M for j in 0..=2.
#[kani::proof]
fn f64_mul_small_contract() {
    let a = any_rep();
    let k: u32 = kani::any();
    let r = BaseElement(a).mul_small(k);
    let s = (a as u128) * (k as u128);
    let hi = (s >> 64) as u128;
    let lo = (s as u64) as u128;
    let t = lo + (hi << 32) - hi;
    let m = M as u128;
    let rr = r.0 as u128;
    assert!(t == rr || t == rr + m || t == rr + 2 * m);
    assert!(r.0 < M);
}

// ---- equality -----------------------------------------------------------------------------------

#[kani::proof]
fn f64_equals_contract() {
    let (a, b): (u64, u64) = (kani::any(), kani::any());
    let e = equals(a, b);
    assert!(e == if a == b { u64::MAX } else { 0 });
}

#[kani::proof]
fn f64_eq_contract() {
    let (a, b) = (any_rep(), any_rep());
    let eq = BaseElement(a) == BaseElement(b);
    assert!(eq == (a == b));
    // equal exactly when they denote the same residue
    assert!(eq == (val(a) == val(b)));
}

// ---- serialization ------------------------------------------------------------------------------

#[kani::proof]
#[kani::stub(alloc::fmt::format, fmt_stub)]
fn f64_serde_contract() {
    let a = BaseElement(any_rep());
    let mut buf: Vec<u8> = Vec::new();
    a.write_into(&mut buf);
    assert!(buf.len() == 8);
    let mut b8 = [0u8; 8];
    b8.copy_from_slice(&buf);
    assert!(u64::from_le_bytes(b8) == a.as_int());
    let mut rd = SliceReader::new(&buf);
    let back = BaseElement::read_from(&mut rd).unwrap();
    assert!(back.0 < M);
    assert!(!rd.has_more_bytes());
}

#[kani::proof]
#[kani::stub(alloc::fmt::format, fmt_stub)]
fn f64_read_from_contract() {
    let bytes: [u8; 9] = kani::any();
    let len: usize = kani::any();
    kani::assume(len <= 9);
    let mut rd = SliceReader::new(&bytes[..len]);
    let mut b8 = [0u8; 8];
    b8.copy_from_slice(&bytes[..8]);
    let v = u64::from_le_bytes(b8);
    match BaseElement::read_from(&mut rd) {
        Ok(e) => {
            assert!(len >= 8 && v < M && e.0 < M);
            assert!(rd.has_more_bytes() == (len == 9));
        },
        Err(_) => assert!(len < 8 || v >= M),
    }
}

#[kani::proof]
fn f64_as_bytes_contract() {
    let a = BaseElement(any_rep());
    let b = a.as_bytes();
    assert!(b.len() == 8);
    let mut b8 = [0u8; 8];
    b8.copy_from_slice(b);
    assert!(u64::from_le_bytes(b8) == a.0);
    let arr = [a, BaseElement(any_rep())];
    let eb = BaseElement::elements_as_bytes(&arr);
    assert!(eb.len() == 16);
    b8.copy_from_slice(&eb[8..16]);
    assert!(u64::from_le_bytes(b8) == arr[1].0);
}

// ---- canary (must FAIL): the run is void if the verifier accepts it -----------------------------

#[kani::proof]
fn f64_canary_must_fail() {
    let (a, b) = (any_rep(), any_rep());
    let r = BaseElement(a) + BaseElement(b);
    assert!(r.0 == subm(a, b));
}

// ---- quadratic extension over the 64-bit field: the multiplier-free function, checked directly ----
#[kani::proof]
fn f64_ext2_frobenius_contract() {
    let (a, b) = (any_rep(), any_rep());
    let r = <BaseElement as ExtensibleField<2>>::frobenius([BaseElement(a), BaseElement(b)]);
    assert!(r[0].0 < M && r[1].0 < M);
    assert!(r[0].0 == addm(a, b));
    assert!(r[1].0 == subm(0, b));
    let rr = <BaseElement as ExtensibleField<2>>::frobenius(r);
    assert!(rr[0].0 == a && rr[1].0 == b);
    assert!((r[0].0 == a && r[1].0 == b) == (b == 0));
}
