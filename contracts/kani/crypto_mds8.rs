// Kani contracts for crypto/src/hash/mds/mds_f64_8x8.rs (frequency-domain MDS multiplication)
#![allow(unused_imports, dead_code)]
use super::*;

const M: u64 = 0xFFFF_FFFF_0000_0001;

/// for every state of 8 canonical elements: no i64/u64 overflow anywhere in the frequency-domain path
/// (Kani's automatic overflow checks on the real code) and every output element is canonical (< M)
#[kani::proof]
#[kani::unwind(9)]
fn mds8_canonical_no_overflow_contract() {
    let raw: [u64; 8] = kani::any();
    let mut state = [BaseElement::ZERO; 8];
    let mut i = 0;
    while i < 8 {
        kani::assume(raw[i] < M);
        state[i] = BaseElement::from_mont(raw[i]);
        i += 1;
    }
    mds_multiply(&mut state);
    let mut i = 0;
    while i < 8 {
        assert!(state[i].inner() < M);
        i += 1;
    }
}

/// the MDS map is linear with the documented circulant first row [23, 8, 13, 10, 7, 6, 21, 8]:
/// on each unit vector e_j (concrete) the result is column j of the matrix
#[kani::proof]
#[kani::unwind(9)]
fn mds8_unit_vectors_contract() {
    const ROW: [u64; 8] = [23, 8, 13, 10, 7, 6, 21, 8];
    let c: u32 = kani::any(); // small multiplier: result entries stay below M without reduction
    let mut j = 0;
    while j < 8 {
        let mut state = [BaseElement::ZERO; 8];
        // (linearity is over raw words as well, so raw words are compared)
        state[j] = BaseElement::from_mont(c as u64);
        mds_multiply(&mut state);
        let mut i = 0;
        while i < 8 {
            // circulant: M[i][j] = ROW[(j - i) mod n]
            assert!(state[i].inner() == ROW[(j + 8 - i) % 8] * (c as u64));
            i += 1;
        }
        j += 1;
    }
}

#[kani::proof]
#[kani::unwind(9)]
fn mds8_canary_must_fail() {
    let mut state = [BaseElement::ZERO; 8];
    state[0] = BaseElement::from_mont(kani::any::<u32>() as u64);
    mds_multiply(&mut state);
    assert!(state[1].inner() == 0);
}
