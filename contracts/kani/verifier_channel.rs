// Kani contract for verifier/src/channel.rs: VerifierChannel::new refuses, before anything else is parsed,
// every proof whose claimed field modulus is not byte for byte the modulus of the computation's base field
// (C18: the security level is computed from the claimed field, so this check ties it to the real one).
#![allow(unused_imports, dead_code)]
use super::*;
use air::{
    proof::{Context, Proof},
    Air, AirContext, Assertion, EvaluationFrame, FieldExtension, ProofOptions, TraceInfo, TransitionConstraintDegree,
};
use crypto::hashers::Blake3_256;
use math::fields::f64::BaseElement;
use utils::{Deserializable, Serializable, SliceReader};

type Hh = Blake3_256<BaseElement>;

pub fn fmt_stub(_args: core::fmt::Arguments<'_>) -> alloc::string::String {
    alloc::string::String::new()
}

/// the smallest possible Air over the 64-bit field
struct AirDouble {
    context: AirContext<BaseElement>,
}
impl Air for AirDouble {
    type BaseField = BaseElement;
    type PublicInputs = ();
    type GkrProof = ();
    type GkrVerifier = ();
    fn new(trace_info: TraceInfo, _pub_inputs: (), options: ProofOptions) -> Self {
        AirDouble { context: AirContext::new(trace_info, alloc::vec![TransitionConstraintDegree::new(1)], 1, options) }
    }
    fn context(&self) -> &AirContext<BaseElement> {
        &self.context
    }
    fn evaluate_transition<E: FieldElement<BaseField = BaseElement>>(&self, frame: &EvaluationFrame<E>, _p: &[E], result: &mut [E]) {
        result[0] = frame.next()[0] - frame.current()[0];
    }
    fn get_assertions(&self) -> Vec<Assertion<BaseElement>> {
        alloc::vec![Assertion::single(0, 0, BaseElement::ONE)]
    }
}

const MODULUS_LE: [u8; 8] = 0xFFFF_FFFF_0000_0001u64.to_le_bytes();

/// a proof whose context claims a modulus of L symbolic bytes
fn proof_claiming<const L: usize>() -> (Proof, [u8; L]) {
    let claimed: [u8; L] = kani::any();
    let mut proof = Proof::new_dummy();
    // re-encode the honest context with the claimed modulus bytes in place of the real ones
    let honest = proof.context.to_bytes();
    let options_len = 6;
    let head = honest.len() - options_len - 8 - 1;
    let mut bytes = Vec::new();
    bytes.extend_from_slice(&honest[..head]);
    bytes.push(L as u8);
    bytes.extend_from_slice(&claimed);
    bytes.extend_from_slice(&honest[honest.len() - options_len..]);
    match Context::read_from_bytes(&bytes) {
        Ok(c) => proof.context = c,
        Err(_) => kani::assume(false),
    }
    (proof, claimed)
}

fn refused_unless_equal<const L: usize>() {
    let (proof, claimed) = proof_claiming::<L>();
    let air = AirDouble::new(proof.trace_info().clone(), (), proof.options().clone());
    let same = L == 8 && {
        let mut eq = true;
        let mut i = 0;
        while i < 8 && i < L {
            if claimed[i] != MODULUS_LE[i] {
                eq = false;
            }
            i += 1;
        }
        eq
    };
    kani::cover!(!same);
    match VerifierChannel::<BaseElement, Hh>::new(&air, proof) {
        Err(VerifierError::InconsistentBaseField) => assert!(!same),
        _ => assert!(same),
    }
}

macro_rules! cf {
    ($name:ident, $l:expr) => {
        #[kani::proof]
        #[kani::unwind(70)]
        #[kani::stub(alloc::fmt::format, fmt_stub)]
        fn $name() {
            refused_unless_equal::<$l>();
        }
    };
}
cf!(verifier_channel_claimed_field_len8_contract, 8);
cf!(verifier_channel_claimed_field_len7_contract, 7);
cf!(verifier_channel_claimed_field_len9_contract, 9);
cf!(verifier_channel_claimed_field_len14_contract, 14);

/// (reachability of the other side: the honest modulus is not refused by the field check)
#[kani::proof]
#[kani::unwind(70)]
#[kani::stub(alloc::fmt::format, fmt_stub)]
fn verifier_channel_honest_field_contract() {
    let proof = Proof::new_dummy();
    let air = AirDouble::new(proof.trace_info().clone(), (), proof.options().clone());
    assert!(!matches!(VerifierChannel::<BaseElement, Hh>::new(&air, proof), Err(VerifierError::InconsistentBaseField)));
}

#[kani::proof]
#[kani::unwind(70)]
#[kani::stub(alloc::fmt::format, fmt_stub)]
fn verifier_channel_canary_must_fail() {
    let (proof, _claimed) = proof_claiming::<8>();
    let air = AirDouble::new(proof.trace_info().clone(), (), proof.options().clone());
    // false claim: the field check never fires
    assert!(!matches!(VerifierChannel::<BaseElement, Hh>::new(&air, proof), Err(VerifierError::InconsistentBaseField)));
}
