// Kani contracts for air/src/air/divisor.rs: which trace-domain steps a divisor is built from.
// The field-valued helper get_trace_domain_value_at (g^step) is replaced by an injective encoding of its
// arguments (kani::stub), so the obligations are about *steps*: the transition divisor is x^n - 1 over
// the points of the last k steps, the assertion divisor is x^(num_steps) - g^(num_steps * first_step).
#![allow(unused_imports, dead_code)]
use super::*;
use math::fields::f64::BaseElement;

pub fn fmt_stub(_args: core::fmt::Arguments<'_>) -> alloc::string::String {
    alloc::string::String::new()
}

/// stands for g_n^step: an element that encodes (n, step) injectively for n <= 2^16, step < 2^16
pub fn domain_value_stub<B: StarkField>(trace_length: usize, step: usize) -> B {
    B::from(((trace_length as u32) << 16) | (step as u32))
}

fn enc(n: usize, step: usize) -> u64 {
    (((n as u32) << 16) | (step as u32)) as u64
}

/// from_transition(n, k): numerator x^n - 1; exemptions are exactly the points of steps n-k .. n-1, in order;
/// degree n - k   (n in {8, 16, 32, 64}, 1 <= k <= min(n/2 + 1, 6))
#[kani::proof]
#[kani::unwind(8)]
#[kani::stub(get_trace_domain_value_at, domain_value_stub)]
#[kani::stub(alloc::fmt::format, fmt_stub)]
fn air_divisor_transition_bounded() {
    let ln: u32 = kani::any();
    kani::assume(ln >= 3 && ln <= 6);
    let n = 1usize << ln;
    let k: usize = kani::any();
    kani::assume(k >= 1 && k <= 6 && k <= n / 2 + 1);
    kani::cover!(n == 8 && k == 5);
    let d = ConstraintDivisor::<BaseElement>::from_transition(n, k);
    assert!(d.numerator().len() == 1 && d.numerator()[0].0 == n && d.numerator()[0].1 == BaseElement::ONE);
    assert!(d.exemptions().len() == k);
    assert!(d.degree() == n - k);
    let i: usize = kani::any();
    kani::assume(i < k);
    assert!(d.exemptions()[i].as_int() == enc(n, n - k + i));
}

/// from_assertion: x^(num_steps) - 1 for first_step == 0, else x^(num_steps) - g^(num_steps * first_step),
/// num_steps being 1 (single), n / stride (periodic)
#[kani::proof]
#[kani::unwind(8)]
#[kani::stub(get_trace_domain_value_at, domain_value_stub)]
#[kani::stub(alloc::fmt::format, fmt_stub)]
fn air_divisor_assertion_bounded() {
    let ln: u32 = kani::any();
    kani::assume(ln >= 3 && ln <= 8);
    let n = 1usize << ln;
    let single: bool = kani::any();
    let first: usize = kani::any();
    let ls: u32 = kani::any();
    kani::assume(ls >= 1 && ls <= ln);
    let stride = 1usize << ls;
    let a = if single {
        kani::assume(first < n);
        Assertion::<BaseElement>::single(0, first, BaseElement::ONE)
    } else {
        kani::assume(first < stride);
        Assertion::<BaseElement>::periodic(0, first, stride, BaseElement::ONE)
    };
    let d = ConstraintDivisor::<BaseElement>::from_assertion(&a, n);
    let num_steps = if single { 1 } else { n / stride };
    assert!(d.exemptions().is_empty());
    assert!(d.numerator().len() == 1 && d.numerator()[0].0 == num_steps);
    assert!(d.degree() == num_steps);
    if first == 0 {
        assert!(d.numerator()[0].1 == BaseElement::ONE);
    } else {
        // the offset is the domain point of step num_steps * first_step (< n)
        assert!(num_steps * first < n);
        assert!(d.numerator()[0].1.as_int() == enc(n, num_steps * first));
    }
}

#[kani::proof]
#[kani::unwind(8)]
#[kani::stub(get_trace_domain_value_at, domain_value_stub)]
#[kani::stub(alloc::fmt::format, fmt_stub)]
fn air_divisor_canary_must_fail() {
    let d = ConstraintDivisor::<BaseElement>::from_transition(8, 2);
    assert!(d.exemptions()[0].as_int() == enc(8, 7));
}
