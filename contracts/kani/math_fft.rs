// Kani contracts for the index arithmetic of math/src/fft/mod.rs (appended to that file).
// permute_index is loop-free: the harnesses below quantify over EVERY power-of-two size 2^0 .. 2^63 and every index
// below it - complete proofs, not bounded ones.
#![allow(unused_imports, dead_code)]
use super::permute_index;

/// permute_index(2^k, i) is the k-bit reversal of i: bit b of the result is bit k-1-b of i (for every b < k),
/// the result is below the size, and the map is an involution (hence a bijection of [0, 2^k)).
#[kani::proof]
fn fft_permute_index_contract() {
    let k: u32 = kani::any();
    kani::assume(k <= 63);
    let size = 1usize << k;
    let i: usize = kani::any();
    kani::assume(i < size);
    kani::cover!(k == 0);
    kani::cover!(k == 63 && i == size - 1);
    let r = permute_index(size, i);
    assert!(r < size);
    let b: u32 = kani::any();
    kani::assume(b < k);
    assert!((r >> b) & 1 == (i >> (k - 1 - b)) & 1);
    assert!(permute_index(size, r) == i);
}

/// the positions a polynomial's chunks are written to in evaluate_poly_with_offset: permute_index(blowup, c) < blowup
/// and distinct chunks get distinct offsets
#[kani::proof]
fn fft_permute_index_injective_contract() {
    let k: u32 = kani::any();
    kani::assume(k <= 63);
    let size = 1usize << k;
    let i: usize = kani::any();
    let j: usize = kani::any();
    kani::assume(i < size && j < size && i != j);
    assert!(permute_index(size, i) != permute_index(size, j));
}

/// the recurrence on the lowest bit that characterises the bit reversal:
/// permute_index(1, 0) == 0 and permute_index(2m, i) == (i mod 2) * m + permute_index(m, i div 2).
/// (Verus unit fftcore assumes exactly this clause - ax_pidx - to identify permute_index with its specification
/// function `bitrev`.)
#[kani::proof]
fn fft_permute_index_recurrence_contract() {
    assert!(permute_index(1, 0) == 0);
    let k: u32 = kani::any();
    kani::assume(1 <= k && k <= 63);
    let size = 1usize << k;
    let i: usize = kani::any();
    kani::assume(i < size);
    kani::cover!(k == 1 && i == 1);
    kani::cover!(k == 63 && i == size - 1);
    assert!(permute_index(size, i) == (i % 2) * (size / 2) + permute_index(size / 2, i / 2));
}

#[kani::proof]
fn fft_index_canary_must_fail() {
    let i: usize = kani::any();
    kani::assume(i < 8);
    assert!(permute_index(8, i) == i);
}
