// Verification double for crates *outside* winter-crypto: a Hasher / ElementHasher over the 64-bit field
// with an 8-byte digest and cheap, SAT-friendly mixing. Same functions as stub_hasher.rs; the digest
// type is defined here because crypto's ByteDigest is not exported. Used only for functional-equality
// post-conditions, never for arguments that need collision resistance.
#[derive(Debug, Default, Copy, Clone, PartialEq, Eq)]
pub struct StubDigest(pub u64);

impl crypto::Digest for StubDigest {
    fn as_bytes(&self) -> [u8; 32] {
        let mut r = [0u8; 32];
        r[..8].copy_from_slice(&self.0.to_le_bytes());
        r
    }
}
impl utils::Serializable for StubDigest {
    fn write_into<W: utils::ByteWriter>(&self, target: &mut W) {
        target.write_u64(self.0);
    }
}
impl utils::Deserializable for StubDigest {
    fn read_from<R: utils::ByteReader>(source: &mut R) -> Result<Self, utils::DeserializationError> {
        Ok(StubDigest(source.read_u64()?))
    }
}

#[derive(Debug, Clone, PartialEq, Eq)]
pub struct StubHasher;

pub fn sd(x: u64) -> StubDigest {
    StubDigest(x)
}
pub fn sv(d: &StubDigest) -> u64 {
    d.0
}
pub fn stub_merge(a: u64, b: u64) -> u64 {
    a.rotate_left(7) ^ b.rotate_left(29) ^ 0x9E37_79B9_7F4A_7C15
}
pub fn stub_mwi(seed: u64, v: u64) -> u64 {
    seed.rotate_left(13) ^ v ^ 0xC2B2_AE3D_27D4_EB4F
}
pub fn stub_absorb(h: u64, b: u8) -> u64 {
    (h.rotate_left(5) ^ (b as u64)).wrapping_add(0x1656_67B1_9E37_79F9)
}

impl crypto::Hasher for StubHasher {
    type Digest = StubDigest;
    const COLLISION_RESISTANCE: u32 = 32;

    fn hash(bytes: &[u8]) -> Self::Digest {
        let mut h = 0u64;
        for b in bytes {
            h = stub_absorb(h, *b);
        }
        sd(h)
    }
    fn merge(values: &[Self::Digest; 2]) -> Self::Digest {
        sd(stub_merge(values[0].0, values[1].0))
    }
    fn merge_with_int(seed: Self::Digest, value: u64) -> Self::Digest {
        sd(stub_mwi(seed.0, value))
    }
}

impl crypto::ElementHasher for StubHasher {
    type BaseField = math::fields::f64::BaseElement;

    fn hash_elements<E>(elements: &[E]) -> Self::Digest
    where
        E: math::FieldElement<BaseField = Self::BaseField>,
    {
        // raw (canonical Montgomery) words of the base-field coefficients: injective on residues and
        // multiplier-free
        let mut h = 0u64;
        for e in E::slice_as_base_elements(elements) {
            h = stub_merge(h, e.inner());
        }
        sd(h)
    }
}

/// RandomCoin double that records what it absorbs: its state is a running digest of the operation
/// sequence (reseed data and draw counts), and every draw returns the element whose raw word is
/// derived from that state - so "which messages were absorbed before this challenge was drawn" is
/// observable as a value.
pub struct RecordingCoin {
    pub state: u64,
    pub reseeds: usize,
    pub draws: usize,
}

impl RecordingCoin {
    pub fn fresh(seed: u64) -> Self {
        RecordingCoin { state: seed, reseeds: 0, draws: 0 }
    }
    pub fn expected_draw(state_before: u64) -> (u64, u64) {
        let s = stub_mwi(state_before, 1);
        (s, s >> 1) // new state, raw word of the drawn element (< 2^63 < M)
    }
}

impl crypto::RandomCoin for RecordingCoin {
    type BaseField = math::fields::f64::BaseElement;
    type Hasher = StubHasher;

    fn new(seed: &[Self::BaseField]) -> Self {
        RecordingCoin { state: <StubHasher as crypto::ElementHasher>::hash_elements(seed).0, reseeds: 0, draws: 0 }
    }
    fn reseed(&mut self, data: StubDigest) {
        self.state = stub_merge(self.state, data.0);
        self.reseeds += 1;
    }
    fn check_leading_zeros(&self, value: u64) -> u32 {
        stub_mwi(self.state, value).trailing_zeros()
    }
    fn draw<E: math::FieldElement<BaseField = Self::BaseField>>(&mut self) -> Result<E, crypto::RandomCoinError> {
        let (s, raw) = Self::expected_draw(self.state);
        self.state = s;
        self.draws += 1;
        Ok(E::from(math::fields::f64::BaseElement::from_mont(raw)))
    }
    fn draw_integers(&mut self, num_values: usize, domain_size: usize, nonce: u64) -> Result<alloc::vec::Vec<usize>, crypto::RandomCoinError> {
        self.state = stub_mwi(self.state, nonce);
        let mut v = alloc::vec::Vec::new();
        let mut i = 0;
        while i < num_values {
            self.state = stub_mwi(self.state, i as u64 + 1);
            v.push((self.state as usize) & (domain_size - 1));
            i += 1;
        }
        Ok(v)
    }
}
