// Verification double: a Hasher / ElementHasher over the 64-bit field with an 8-byte digest and cheap,
// SAT-friendly mixing (xor / rotate / wrapping add). It is used only for *functional-equality*
// post-conditions ("the value returned is H::merge_with_int(seed, counter)"), never for arguments that
// need collision resistance. Results obtained with it rely on the parametricity of the generic code
// in its hasher parameter (listed in the trusted base).
pub type StubDigest = crate::hash::ByteDigest<8>;

#[derive(Debug, Clone, PartialEq, Eq)]
pub struct StubHasher;

pub fn sd(x: u64) -> StubDigest {
    StubDigest::new(x.to_le_bytes())
}

pub fn sv(d: &StubDigest) -> u64 {
    let b = <StubDigest as crate::Digest>::as_bytes(d);
    u64::from_le_bytes([b[0], b[1], b[2], b[3], b[4], b[5], b[6], b[7]])
}

pub fn stub_merge(a: u64, b: u64) -> u64 {
    a.rotate_left(7) ^ b.rotate_left(29) ^ 0x9E37_79B9_7F4A_7C15
}

pub fn stub_mwi(seed: u64, v: u64) -> u64 {
    seed.rotate_left(13) ^ v ^ 0xC2B2_AE3D_27D4_EB4F
}

pub fn stub_absorb(h: u64, b: u8) -> u64 {
    (h.rotate_left(5) ^ (b as u64)).wrapping_add(0x1656_67B1_9E37_79F9)
}

impl crate::Hasher for StubHasher {
    type Digest = StubDigest;
    const COLLISION_RESISTANCE: u32 = 32;

    fn hash(bytes: &[u8]) -> Self::Digest {
        let mut h = 0u64;
        for b in bytes {
            h = stub_absorb(h, *b);
        }
        sd(h)
    }

    fn merge(values: &[Self::Digest; 2]) -> Self::Digest {
        sd(stub_merge(sv(&values[0]), sv(&values[1])))
    }

    fn merge_with_int(seed: Self::Digest, value: u64) -> Self::Digest {
        sd(stub_mwi(sv(&seed), value))
    }
}

impl crate::ElementHasher for StubHasher {
    type BaseField = math::fields::f64::BaseElement;

    fn hash_elements<E>(elements: &[E]) -> Self::Digest
    where
        E: math::FieldElement<BaseField = Self::BaseField>,
    {
        // canonical residues of the base-field coefficients, little-endian
        let mut h = 0u64;
        for e in E::slice_as_base_elements(elements) {
            for b in math::StarkField::as_int(e).to_le_bytes() {
                h = stub_absorb(h, b);
            }
        }
        sd(h)
    }
}
