// Kani contracts for the sponge plumbing of crypto/src/hash/rescue/rp64_256/mod.rs. The Rescue permutation
// is replaced by a cheap mixing double and BaseElement::new by its contract (the element denoting
// v mod M), so that the obligations are about *absorption*: which elements enter the state, where,
// with which padding and length tag. They are stated as equalities between hash functions, which hold
// for every permutation.
#![allow(unused_imports, dead_code)]
use super::*;
use alloc::vec::Vec;

const M: u64 = 0xFFFF_FFFF_0000_0001;

pub fn fmt_stub(_args: core::fmt::Arguments<'_>) -> alloc::string::String {
    alloc::string::String::new()
}

/// contract abstraction of f64 BaseElement::new (unit f64v: v(new(x)) == x mod M, canonical)
pub fn new_stub(value: u64) -> BaseElement {
    BaseElement::from_mont(if value >= M { value - M } else { value })
}

/// permutation double: one round of mixing in which every word receives its neighbours at distances
/// +1, +2, -1 and -4 (with different weights), so that every digest word sees the capacity word, both
/// integer-input words and its neighbours, and repeated applications differ
pub fn perm_stub(state: &mut [BaseElement; STATE_WIDTH]) {
    let old = *state;
    let w = STATE_WIDTH;
    let mut i = 0;
    while i < w {
        state[i] = old[i]
            + old[(i + 1) % w].double()
            + old[(i + 2) % w].double().double()
            + old[(i + w - 1) % w].double().double().double()
            + old[(i + w - 4) % w]
            + BaseElement::ONE;
        i += 1;
    }
}

/// the documented encoding of a byte string: 7-byte little-endian chunks, the last one followed by a
/// single 0x01 byte (so a chunk never exceeds 2^56 and is a field element)
fn encode(bytes: &[u8]) -> Vec<BaseElement> {
    let mut out = Vec::new();
    let n = bytes.len();
    let mut start = 0;
    while start < n {
        let end = if start + 7 < n { start + 7 } else { n };
        let mut buf = [0u8; 8];
        let mut k = 0;
        while start + k < end {
            buf[k] = bytes[start + k];
            k += 1;
        }
        if end == n {
            buf[end - start] = 1;
        }
        out.push(new_stub(u64::from_le_bytes(buf)));
        start = end;
    }
    out
}

fn same(a: ElementDigest, b: ElementDigest) -> bool {
    let (x, y) = (a.as_elements(), b.as_elements());
    x[0].inner() == y[0].inner() && x[1].inner() == y[1].inner() && x[2].inner() == y[2].inner() && x[3].inner() == y[3].inner()
}

/// hash(bytes) never panics and equals hash_elements(encode(bytes)) for byte strings of length L
fn hash_bytes_is_sponge_of_encoding<const L: usize>() {
    let bytes: [u8; L] = kani::any();
    let d = Rp64_256::hash(&bytes);
    let e = encode(&bytes);
    let r = Rp64_256::hash_elements(&e);
    assert!(same(d, r));
}

macro_rules! hb {
    ($name:ident, $l:expr) => {
        #[kani::proof]
        #[kani::unwind(16)]
        #[kani::stub(BaseElement::new, new_stub)]
        #[kani::stub(Rp64_256::apply_permutation, perm_stub)]
        #[kani::stub(alloc::fmt::format, fmt_stub)]
        fn $name() {
            hash_bytes_is_sponge_of_encoding::<$l>();
        }
    };
}
hb!(rp64_hash_bytes_len0_bounded, 0);
hb!(rp64_hash_bytes_len1_bounded, 1);
hb!(rp64_hash_bytes_len7_bounded, 7);
hb!(rp64_hash_bytes_len8_bounded, 8);
hb!(rp64_hash_bytes_len56_bounded, 56);
hb!(rp64_hash_bytes_len57_bounded, 57);
hb!(rp64_hash_bytes_len63_bounded, 63);

/// merge([a, b]) == hash_elements(a || b)
#[kani::proof]
#[kani::unwind(16)]
#[kani::stub(BaseElement::new, new_stub)]
#[kani::stub(Rp64_256::apply_permutation, perm_stub)]
fn rp64_merge_is_hash_of_concatenation_contract() {
    let raw: [u64; 8] = kani::any();
    let mut els = [BaseElement::ZERO; 8];
    let mut i = 0;
    while i < 8 {
        kani::assume(raw[i] < M);
        els[i] = BaseElement::from_mont(raw[i]);
        i += 1;
    }
    let a = ElementDigest::new([els[0], els[1], els[2], els[3]]);
    let b = ElementDigest::new([els[4], els[5], els[6], els[7]]);
    assert!(same(Rp64_256::merge(&[a, b]), Rp64_256::hash_elements(&els)));
}

/// merge_with_int(seed, v) == hash_elements(seed || [v]) for v < M, else hash_elements(seed || [v mod M, v div M]);
/// the absorbed tuple (v mod M, v div M, element count) is injective in v
#[kani::proof]
#[kani::unwind(16)]
#[kani::stub(BaseElement::new, new_stub)]
#[kani::stub(Rp64_256::apply_permutation, perm_stub)]
fn rp64_merge_with_int_contract() {
    let raw: [u64; 4] = kani::any();
    kani::assume(raw[0] < M && raw[1] < M && raw[2] < M && raw[3] < M);
    let s = [BaseElement::from_mont(raw[0]), BaseElement::from_mont(raw[1]), BaseElement::from_mont(raw[2]), BaseElement::from_mont(raw[3])];
    let seed = ElementDigest::new(s);
    let v: u64 = kani::any();
    kani::cover!(v == M);
    let d = Rp64_256::merge_with_int(seed, v);
    if v < M {
        let e = [s[0], s[1], s[2], s[3], new_stub(v)];
        assert!(same(d, Rp64_256::hash_elements(&e)));
    } else {
        let e = [s[0], s[1], s[2], s[3], new_stub(v - M), new_stub(1)];
        assert!(same(d, Rp64_256::hash_elements(&e)));
    }
    // injectivity of the absorbed encoding in the integer
    let w: u64 = kani::any();
    kani::assume(w != v);
    let enc = |x: u64| if x < M { (x, 0u64, 5u8) } else { (x - M, 1u64, 6u8) };
    assert!(enc(v) != enc(w));
}

/// a second, cheaper permutation double for the multi-block harnesses: rotation by one word, the first capacity word added to
/// every word, plus a constant in word 0 (position-sensitive, application-counting, every digest word sees the length tag; equalities between two hash computations over it
/// are decided word by word without any arithmetic mixing)
pub fn perm_rot(state: &mut [BaseElement; STATE_WIDTH]) {
    let old = *state;
    let mut i = 0;
    while i < STATE_WIDTH {
        state[i] = old[(i + 1) % STATE_WIDTH] + old[0];
        i += 1;
    }
    state[0] = state[0] + BaseElement::ONE;
}

/// the documented sponge over base-field residues, written independently of hash_elements: 12 words, words
/// 0..3 capacity, 4..11 rate; capacity word 0 starts as the number of residues; residues are added into
/// the rate one by one, the permutation runs after every 8 and once more for a partial block (zero
/// padding); the digest is words 4..7
fn reference_sponge(residues: &[BaseElement]) -> ElementDigest {
    let mut st = [BaseElement::ZERO; 12];
    st[0] = new_stub(residues.len() as u64);
    let mut filled = 0usize;
    let mut k = 0usize;
    while k < residues.len() {
        st[4 + filled] = st[4 + filled] + residues[k];
        filled += 1;
        if filled == 8 {
            perm_rot(&mut st);
            filled = 0;
        }
        k += 1;
    }
    if filled > 0 {
        perm_rot(&mut st);
    }
    ElementDigest::new([st[4], st[5], st[6], st[7]])
}

fn any_elements<const L: usize>() -> [BaseElement; L] {
    let raw: [u64; L] = kani::any();
    let mut els = [BaseElement::ZERO; L];
    let mut i = 0;
    while i < L {
        kani::assume(raw[i] < M);
        els[i] = BaseElement::from_mont(raw[i]);
        i += 1;
    }
    els
}

/// hash_elements over L base-field elements (all symbolic) equals the documented sponge
fn hash_elements_is_reference_sponge<const L: usize>() {
    let els = any_elements::<L>();
    assert!(same(Rp64_256::hash_elements(&els), reference_sponge(&els)));
}

macro_rules! he {
    ($name:ident, $l:expr) => {
        #[kani::proof]
        #[kani::unwind(20)]
        #[kani::stub(BaseElement::new, new_stub)]
        #[kani::stub(Rp64_256::apply_permutation, perm_rot)]
        fn $name() {
            hash_elements_is_reference_sponge::<$l>();
        }
    };
}
he!(rp64_hash_elements_len0_bounded, 0);
he!(rp64_hash_elements_len1_bounded, 1);
he!(rp64_hash_elements_len7_bounded, 7);
he!(rp64_hash_elements_len8_bounded, 8);
he!(rp64_hash_elements_len9_bounded, 9);
he!(rp64_hash_elements_len16_bounded, 16);
he!(rp64_hash_elements_len17_bounded, 17);

/// hashing extension-field elements depends only on the residues: it equals the documented sponge over the
/// flattened coefficient list (quadratic: 2 per element, cubic: 3 per element)
#[kani::proof]
#[kani::unwind(20)]
#[kani::stub(BaseElement::new, new_stub)]
#[kani::stub(Rp64_256::apply_permutation, perm_rot)]
fn rp64_hash_elements_extension_typing_bounded() {
    use math::fields::{CubeExtension, QuadExtension};
    let c = any_elements::<6>();
    let quad = [QuadExtension::new(c[0], c[1]), QuadExtension::new(c[2], c[3]), QuadExtension::new(c[4], c[5])];
    assert!(same(Rp64_256::hash_elements(&quad), reference_sponge(&c)));
    let cube = [CubeExtension::new(c[0], c[1], c[2]), CubeExtension::new(c[3], c[4], c[5])];
    assert!(same(Rp64_256::hash_elements(&cube), reference_sponge(&c)));
    let one = [QuadExtension::new(c[0], BaseElement::ZERO)];
    assert!(same(Rp64_256::hash_elements(&one), reference_sponge(&[c[0], BaseElement::ZERO])));
}

#[kani::proof]
#[kani::unwind(16)]
#[kani::stub(BaseElement::new, new_stub)]
#[kani::stub(Rp64_256::apply_permutation, perm_stub)]
#[kani::stub(alloc::fmt::format, fmt_stub)]
fn rp64_canary_must_fail() {
    let a: [u8; 3] = kani::any();
    let b: [u8; 3] = kani::any();
    assert!(same(Rp64_256::hash(&a), Rp64_256::hash(&b)));
}
