// Kani contracts for math/src/field/f128/mod.rs: canonical representation (raw word == residue < M),
// additive structure, conversions, serialization and the multiplier-free limb helpers of `mul`/`inv`.
// (`mul` as a whole and the binary-GCD `inv` are not under contract: see DESIGN.md 4.C07.)
#![allow(unused_imports, dead_code)]
use super::*;
use utils::SliceReader;

pub fn fmt_stub(_args: core::fmt::Arguments<'_>) -> alloc::string::String {
    alloc::string::String::new()
}

fn any_rep() -> u128 {
    let a: u128 = kani::any();
    kani::assume(a < M);
    a
}

#[kani::proof]
fn f128_constants_contract() {
    assert!(M == (0u128.wrapping_sub(45 * (1u128 << 40))).wrapping_add(1)); // 2^128 - 45 * 2^40 + 1
    assert!(<BaseElement as StarkField>::MODULUS == M && <BaseElement as StarkField>::MODULUS_BITS == 128);
    assert!(<BaseElement as StarkField>::TWO_ADICITY == 40);
    assert!((M - 1) % (1u128 << 40) == 0 && ((M - 1) >> 40) & 1 == 1);
    assert!(<BaseElement as StarkField>::GENERATOR.0 == 3);
    assert!(<BaseElement as StarkField>::TWO_ADIC_ROOT_OF_UNITY.0 == G && G < M);
    assert!(BaseElement::ZERO.0 == 0 && BaseElement::ONE.0 == 1);
    let mb = <BaseElement as StarkField>::get_modulus_le_bytes();
    assert!(mb.len() == 16);
    let mut b = [0u8; 16];
    b.copy_from_slice(&mb);
    assert!(u128::from_le_bytes(b) == M);
    assert!(<BaseElement as FieldElement>::ELEMENT_BYTES == 16);
}

/// two 128-bit limbs of a + b, compared against r + k*M without a wider type
fn sum_is(a: u128, b: u128, r: u128) -> bool {
    let (s, c) = a.overflowing_add(b);
    if !c && s < M {
        r == s
    } else {
        // a + b >= M: r == a + b - M (mod 2^128 arithmetic is exact because a + b < 2M < 2^129)
        r == s.wrapping_sub(M)
    }
}

#[kani::proof]
fn f128_add_contract() {
    let (a, b) = (any_rep(), any_rep());
    let r = add(a, b);
    assert!(r < M);
    assert!(sum_is(a, b, r));
    assert!((BaseElement(a) + BaseElement(b)).0 == r);
    let mut c = BaseElement(a);
    c += BaseElement(b);
    assert!(c.0 == r);
}

#[kani::proof]
fn f128_sub_neg_contract() {
    let (a, b) = (any_rep(), any_rep());
    let r = sub(a, b);
    assert!(r < M);
    assert!(r == if a >= b { a - b } else { M - b + a });
    assert!((BaseElement(a) - BaseElement(b)).0 == r);
    let mut c = BaseElement(a);
    c -= BaseElement(b);
    assert!(c.0 == r);
    let n = (-BaseElement(a)).0;
    assert!(n < M && n == if a == 0 { 0 } else { M - a });
    // additive inverse: a + (-a) == 0
    assert!(add(a, n) == 0);
}

#[kani::proof]
fn f128_new_as_int_eq_contract() {
    let v: u128 = kani::any();
    let e = BaseElement::new(v);
    assert!(e.0 < M && e.0 == if v >= M { v - M } else { v });
    assert!(e.as_int() == e.0);
    let (a, b) = (any_rep(), any_rep());
    assert!((BaseElement(a) == BaseElement(b)) == (a == b));
    let d = BaseElement(a).double();
    assert!(d.0 == add(a, a));
}

#[kani::proof]
#[kani::stub(alloc::fmt::format, fmt_stub)]
fn f128_conversions_contract() {
    let x: u64 = kani::any();
    let y: u32 = kani::any();
    let z: u16 = kani::any();
    let w: u8 = kani::any();
    assert!(BaseElement::from(x).0 == x as u128 && BaseElement::from(y).0 == y as u128);
    assert!(BaseElement::from(z).0 == z as u128 && BaseElement::from(w).0 == w as u128);
    let v: u128 = kani::any();
    match BaseElement::try_from(v) {
        Ok(e) => assert!(v < M && e.0 == v),
        Err(_) => assert!(v >= M),
    }
}

#[kani::proof]
#[kani::stub(alloc::fmt::format, fmt_stub)]
fn f128_try_from_slice_contract() {
    let bytes: [u8; 18] = kani::any();
    let len: usize = kani::any();
    kani::assume(len <= 18);
    kani::cover!(len == 16);
    let r = BaseElement::try_from(&bytes[..len]);
    let rr = <BaseElement as Randomizable>::from_random_bytes(&bytes[..len]);
    let mut b = [0u8; 16];
    b.copy_from_slice(&bytes[..16]);
    let v = u128::from_le_bytes(b);
    match r {
        Ok(e) => {
            assert!(len == 16 && v < M && e.0 == v);
            assert!(rr.is_some() && rr.unwrap().0 == v);
        },
        Err(_) => {
            assert!(len != 16 || v >= M);
            assert!(rr.is_none());
        },
    }
}

#[kani::proof]
#[kani::stub(alloc::fmt::format, fmt_stub)]
fn f128_serde_contract() {
    let a = BaseElement(any_rep());
    let mut buf: Vec<u8> = Vec::new();
    a.write_into(&mut buf);
    assert!(buf.len() == 16);
    let mut b = [0u8; 16];
    b.copy_from_slice(&buf);
    assert!(u128::from_le_bytes(b) == a.0);
    let mut rd = SliceReader::new(&buf);
    let back = BaseElement::read_from(&mut rd).unwrap();
    assert!(back.0 == a.0 && !rd.has_more_bytes());
    let ab = a.as_bytes();
    assert!(ab.len() == 16);
    b.copy_from_slice(ab);
    assert!(u128::from_le_bytes(b) == a.0);
}

#[kani::proof]
#[kani::stub(alloc::fmt::format, fmt_stub)]
fn f128_read_from_contract() {
    let bytes: [u8; 17] = kani::any();
    let len: usize = kani::any();
    kani::assume(len <= 17);
    let mut rd = SliceReader::new(&bytes[..len]);
    let mut b = [0u8; 16];
    b.copy_from_slice(&bytes[..16]);
    let v = u128::from_le_bytes(b);
    match BaseElement::read_from(&mut rd) {
        Ok(e) => {
            assert!(len >= 16 && v < M && e.0 == v);
            assert!(rd.has_more_bytes() == (len == 17));
        },
        Err(_) => assert!(len < 16 || v >= M),
    }
}

// ---- limb helpers of mul / inv (192-bit values as three 64-bit limbs) --------------------------------

fn limbs(x0: u64, x1: u64) -> u128 {
    (x0 as u128) | ((x1 as u128) << 64)
}

#[kani::proof]
fn f128_add64_with_carry_contract() {
    let (a, b, c): (u64, u64, u64) = (kani::any(), kani::any(), kani::any());
    kani::assume(c <= 1);
    let (s, k) = add64_with_carry(a, b, c);
    assert!(k <= 1);
    assert!((s as u128) + ((k as u128) << 64) == a as u128 + b as u128 + c as u128);
}

/// add_192x192: exact 192-bit sum when it fits (the callers keep values below 2^192)
#[kani::proof]
fn f128_add_192_contract() {
    let (a0, a1, a2, b0, b1, b2): (u64, u64, u64, u64, u64, u64) = (kani::any(), kani::any(), kani::any(), kani::any(), kani::any(), kani::any());
    let (z0, z1, z2) = add_192x192(a0, a1, a2, b0, b1, b2);
    // low 128 bits and the carry into the third limb
    let (lo, c) = limbs(a0, a1).overflowing_add(limbs(b0, b1));
    assert!(limbs(z0, z1) == lo);
    assert!(z2 == a2.wrapping_add(b2).wrapping_add(c as u64));
}

/// sub_192x192: exact 192-bit difference modulo 2^192
#[kani::proof]
fn f128_sub_192_contract() {
    let (a0, a1, a2, b0, b1, b2): (u64, u64, u64, u64, u64, u64) = (kani::any(), kani::any(), kani::any(), kani::any(), kani::any(), kani::any());
    let (z0, z1, z2) = sub_192x192(a0, a1, a2, b0, b1, b2);
    let (lo, br) = limbs(a0, a1).overflowing_sub(limbs(b0, b1));
    assert!(limbs(z0, z1) == lo);
    assert!(z2 == a2.wrapping_sub(b2).wrapping_sub(br as u64));
}

/// sub_modulus(a) == a - M modulo 2^128
#[kani::proof]
fn f128_sub_modulus_contract() {
    let (a0, a1): (u64, u64) = (kani::any(), kani::any());
    let (z0, z1) = sub_modulus(a0, a1);
    assert!(limbs(z0, z1) == limbs(a0, a1).wrapping_sub(M));
}

#[kani::proof]
fn f128_canary_must_fail() {
    let (a, b) = (any_rep(), any_rep());
    assert!(add(a, b) >= a);
}

// ---- quadratic extension over the 128-bit field: the multiplier-free functions, checked directly ----
/// frobenius([x0, x1]) == [x0 + x1, -x1], both canonical (conjugation with the other root 1 - phi)
#[kani::proof]
fn f128_ext2_frobenius_contract() {
    let (a, b) = (any_rep(), any_rep());
    let r = <BaseElement as ExtensibleField<2>>::frobenius([BaseElement(a), BaseElement(b)]);
    assert!(r[0].0 < M && r[1].0 < M);
    assert!(r[0].0 == add(a, b));
    assert!(r[1].0 == if b == 0 { 0 } else { M - b });
    // conjugation is an involution and fixes exactly the base field
    let rr = <BaseElement as ExtensibleField<2>>::frobenius(r);
    assert!(rr[0].0 == a && rr[1].0 == b);
    assert!((r[0].0 == a && r[1].0 == b) == (b == 0));
}
