from registry import H, kani_unit, verus_unit, native_unit, PROPS, UNITS

kani_unit("fri_lib", "winter-fri", "fri/src/lib.rs", "kani/fri_lib.rs", "", [
    H("fri_num_layers_contract", ["C15", "C05", "C06"], ["FriOptions::num_fri_layers"],
      "forall folding factors 2/4/8/16, blowups 2^0..2^7, remainder degrees 2^0-1..2^8-1, domains 2^0..2^32: terminates; result is the least k with domain/N^k <= (rmd+1)*blowup"),
    H("fri_fold_positions_bounded", ["C15"], ["folding::fold_positions"],
      "result = positions mod folded size, de-duplicated, in order of first occurrence; every folded position present; all < folded size",
      bounded="position lists of length 3 (16-bit symbolic values, domain size 2^2..2^12, folding factor symbolic)"),
    H("fri_map_positions_contract", ["C15", "C06"], ["utils::map_positions_to_indexes"],
      "forall domains 2^2..2^24, folding factors, partition counts 2^0..: identity for one partition; injective; < folded size; index == (p mod P) * (T/P) + p div P"),
    H("fri_map_positions_total_contract", ["C06"], ["utils::map_positions_to_indexes"],
      "forall domains 2^2..2^32, folding factors 2..16, partition counts 2^0..2^63 (every value a parsed proof can carry), positions below the folded size: no overflow, no division by zero, one index per position"),
    H("fri_lib_canary_must_fail", ["C15", "C05"], [], "false claim: fewer than 5 layers for every domain", canary=True),
])
for u in UNITS:
    if u["unit"] == "fri_lib":
        u["modpath"] = "verif_kani"

kani_unit("air_assertions", "winter-air", "air/src/air/assertions/mod.rs", "kani/air_assertions.rs", "air::assertions", [
    H("air_assertion_overlap_contract", ["C16"], ["Assertion::overlaps_with"],
      "forall pairs of well-formed assertions (single / strided, first step, stride powers of two) on trace lengths 8, 16, 32: overlaps_with <=> same column and a common named step; symmetric",
      bounded="trace length in {8, 16, 32}"),
    H("air_assertion_validate_contract", ["C16"], ["Assertion::validate_trace_length", "Assertion::get_num_steps", "Assertion::single", "Assertion::periodic"],
      "forall trace lengths, steps, strides: single valid iff n power of two and step < n; periodic valid iff stride <= n; number of named steps is 1 resp. n / stride"),
    H("air_assertion_sequence_contract", ["C16"], ["Assertion::sequence", "Assertion::validate_trace_length", "Assertion::get_num_steps", "Assertion::is_single/is_periodic/is_sequence"],
      "a one-value sequence is a single assertion (stride 0, one named step); a 4-value sequence names 4 steps and is valid exactly for n == 4 * stride"),
    H("air_assertions_canary_must_fail", ["C16"], [], "false claim: assertions never overlap", canary=True),
])

DBL = "doubles: ChannelDouble (hands out commitments / remainder), StubHasher, RecordingCoin (state = running digest of the absorbed operations); parametricity of FriVerifier in its channel, hasher and coin"
kani_unit("fri_verifier", "winter-fri", "fri/src/verifier/mod.rs", "kani/fri_verifier.rs", "verifier", [
    H("fri_verifier_new_contract", ["C05", "C04"], ["FriVerifier::new"],
      "3 commitments, folding 4, degree bounds 63, 31, 27, 19, 62 (two folding steps), 255 (three), 11 (one): a commitment list that does not have one entry per folding step plus one is refused before anything is absorbed; otherwise each commitment is absorbed and exactly one challenge drawn right after it, in order, and stored for its layer; DegreeTruncation(depth) iff (d+1) is not divisible by 4^(depth+1) at a non-final depth",
      bounded="3 layer commitments, folding factor 4, seven concrete degree bounds; commitments and coin seed symbolic", timeout=600, tier="thorough"),
    H("fri_verifier_remainder_binding_contract", ["C05", "C03", "C04"], ["FriVerifier::verify", "FriVerifier::verify_generic", "VerifierChannel::read_remainder", "eval_horner"],
      "zero-layer schedule, one query: verify == Ok implies hash_elements(remainder) == the last absorbed commitment and remainder(x_pos) == queried evaluation",
      bounded="zero FRI layers, one query, remainder of 1 symbolic coefficient; commitment, evaluation, position symbolic"),
    H("fri_verifier_remainder_missing_commitment_contract", ["C05", "C03", "C04"], ["FriVerifier::new", "FriVerifier::verify_generic"],
      "zero-layer schedule with an empty commitment list: the (consistent) remainder is refused - it is bound to no commitment",
      bounded="zero FRI layers, one query, remainder of 1 symbolic coefficient"),
    H("fri_verifier_remainder_degree_contract", ["C05"], ["FriVerifier::verify", "FriVerifier::verify_generic"],
      "a remainder longer than the degree bound is refused with RemainderDegreeMismatch; mismatching position / evaluation counts are refused",
      bounded="zero FRI layers, 2-coefficient remainder against bound 1"),
    H("fri_verifier_canary_must_fail", ["C05", "C03", "C04"], [], "false claim: FriVerifier::new always fails", canary=True),
])
for u in UNITS:
    if u["unit"] == "fri_verifier":
        u["trusted"] = [DBL]

kani_unit("air_divisor", "winter-air", "air/src/air/divisor.rs", "kani/air_divisor.rs", "air::divisor", [
    H("air_divisor_transition_bounded", ["C16"], ["ConstraintDivisor::from_transition", "ConstraintDivisor::degree"],
      "numerator x^n - 1; exemptions are exactly the domain points of steps n-k..n-1, in order; degree n - k",
      bounded="n in {8,16,32,64}, k <= min(n/2+1, 6); get_trace_domain_value_at abstracted by an injective encoding of (n, step)"),
    H("air_divisor_assertion_bounded", ["C16"], ["ConstraintDivisor::from_assertion", "Assertion::get_num_steps"],
      "single / periodic assertions: numerator x^(num_steps) - 1 if first_step == 0 else x^(num_steps) - g^(num_steps * first_step); no exemptions",
      bounded="n = 2^3..2^8; get_trace_domain_value_at abstracted by an injective encoding of (n, step)"),
    H("air_divisor_canary_must_fail", ["C16"], [], "false claim: first exemption of (8, 2) is step 7", canary=True),
])

kani_unit("fri_proof", "winter-fri", "fri/src/proof.rs", "kani/fri_proof.rs", "proof", [
    H("fri_proof_header_r8_k0_bounded", ["C06", "C03", "C12"], ["FriProof::read_from", "FriProof::write_into", "FriProof::num_partitions", "FriProof::parse_remainder"],
      "zero-layer proof: never panics (2^k of the partition byte must not overflow); re-encodes to the same bytes; parse_remainder succeeds only on a whole power-of-two number of elements and consumes everything",
      bounded="0 layers, 8-byte remainder, partition byte 0; remainder content symbolic"),
    H("fri_proof_header_r8_k63_bounded", ["C06", "C03", "C12"], ["FriProof::read_from", "FriProof::write_into", "FriProof::num_partitions", "FriProof::parse_remainder"],
      "zero-layer proof: never panics (2^k of the partition byte must not overflow); re-encodes to the same bytes; parse_remainder succeeds only on a whole power-of-two number of elements and consumes everything",
      bounded="0 layers, 8-byte remainder, partition byte 63; remainder content symbolic"),
    H("fri_proof_header_r8_k64_bounded", ["C06", "C03", "C12"], ["FriProof::read_from", "FriProof::write_into", "FriProof::num_partitions", "FriProof::parse_remainder"],
      "zero-layer proof: never panics (2^k of the partition byte must not overflow); re-encodes to the same bytes; parse_remainder succeeds only on a whole power-of-two number of elements and consumes everything",
      bounded="0 layers, 8-byte remainder, partition byte 64; remainder content symbolic"),
    H("fri_proof_header_r8_k255_bounded", ["C06", "C03", "C12"], ["FriProof::read_from", "FriProof::write_into", "FriProof::num_partitions", "FriProof::parse_remainder"],
      "zero-layer proof: never panics (2^k of the partition byte must not overflow); re-encodes to the same bytes; parse_remainder succeeds only on a whole power-of-two number of elements and consumes everything",
      bounded="0 layers, 8-byte remainder, partition byte 255; remainder content symbolic"),
    H("fri_proof_header_r9_bounded", ["C06", "C03", "C12"], ["FriProof::read_from", "FriProof::write_into", "FriProof::num_partitions", "FriProof::parse_remainder"],
      "zero-layer proof: never panics (2^k of the partition byte must not overflow); re-encodes to the same bytes; parse_remainder succeeds only on a whole power-of-two number of elements and consumes everything",
      bounded="0 layers, 9-byte remainder; remainder content symbolic"),
    H("fri_proof_header_r0_bounded", ["C06", "C03", "C12"], ["FriProof::read_from", "FriProof::write_into", "FriProof::num_partitions", "FriProof::parse_remainder"],
      "zero-layer proof: never panics (2^k of the partition byte must not overflow); re-encodes to the same bytes; parse_remainder succeeds only on a whole power-of-two number of elements and consumes everything",
      bounded="0 layers, empty remainder; remainder content symbolic"),
    H("fri_proof_layer_bounded", ["C06", "C03"], ["FriProofLayer::read_from", "FriProofLayer::write_into", "FriProofLayer::parse"],
      "one query of two elements, 2 path bytes: never panics; Ok only if every byte is consumed; the Merkle leaf is recomputed as the hash of the opened values",
      bounded="16 value bytes, 2 path bytes, folding factor 2, domain 8", timeout=1200, tier="thorough"),
    H("fri_proof_canary_must_fail", ["C06", "C03", "C12"], [], "false claim: FriProof::read_from always fails", canary=True),
])
for u in UNITS:
    if u["unit"] == "fri_proof":
        u["trusted"] = [DBL]

native_unit("fri_native", "winter-fri", "fri", "native/fri_bounded.rs", ["C15", "C05", "C06"],
            ["FriProver::build_layers", "FriProver::build_proof", "FriVerifier::new", "FriVerifier::verify", "apply_drp", "fold_positions", "FriProof (de)serialization", "VerifierChannel::read_layer_queries", "DefaultVerifierChannel::new", "utils::map_positions_to_indexes (partitioned layer layout)"],
            "apply_drp satisfies the folding identity against a coefficient-domain reference (coefficients folded with powers of the challenge, evaluated by Horner over offset^N * <g^N>) for N in {2,4,8,16}, domains up to 256, offsets {1, generator, 5, seeded}, base fields and extensions; a transcript with the last layer and its commitment dropped or duplicated (consistent in itself, inconsistent with the options' folding schedule) is refused without a panic; honest FRI proofs are accepted after serialization for every grid configuration (reused prover, degree == bound / 0 / low, 1..40 queries incl. repeated positions); polynomials above the claimed bound, proofs with a flipped bit and claimed evaluations that differ from the committed layer at a single queried position are refused; nothing panics; read_layer_queries returns values iff verify_batch accepts the layer opening for exactly the given positions and commitment (honest, empty, duplicated, out-of-range, dropped, repeated positions; right and wrong commitment); DefaultVerifierChannel hands out exactly the commitments it was given and refuses a list without the remainder commitment; proofs with exactly 255 distinct folded positions (255 positions, 305 with repetitions) are accepted; one-layer proofs whose trees are laid out for 1 / 2 / 4 partitions are accepted when honest and refused when the rows were folded at the x-coordinates of the Merkle slots",
            "NATIVE EXECUTION, not a proof: trace lengths 2^3..2^7 x blowup {2,4,8} x folding {2,4,8,16} x remainder degree {0,1,3,7,15,31} (well-formed schedules) over the 128- and 64-bit fields (every other trace length also over their quadratic extensions and the cubic extension of the 64-bit field) with Blake3_256, seeded polynomials; per configuration 3 runs with one claimed evaluation changed and 6 with a flipped proof bit; 4 runs with layers above 64 KiB (folding 16, quadratic extension of f128, up to 255 queries); 5 configurations x all admissible bounds for the above-bound part; 3 forced position lists on a 16384-point domain; 5 hand-assembled partitioned proofs (degree bound 7, domain 64, folding 2)")

verus_unit("friv", "friv", ["C15", "C05"], ["folding::fold_positions (every list of positions, every domain)", "utils::map_positions_to_indexes (every list of positions below the folded domain size, every partition count: element i is (p mod P) * (T / P) + p div P, the identity for P == 1; no overflow; for P dividing T distinct positions get distinct leaves below T)", "verifier::get_query_values (every list of positions, folded positions containing each image, row width N dividing the domain size: value k is cell position_k / row_length of the row opened for the first occurrence of position_k mod row_length; one value per position in order; the unwrap never fails, no index out of range; Iterator::position is an assumed std contract)"])
verus_unit("assertv", "assertv", ["C16"], ["Assertion::overlaps_with (every trace length)", "Assertion::is_single"])

native_unit("boundary_native", "winter-air", "air", "native/boundary_bounded.rs", ["C16", "C17"],
            ["Assertion::periodic", "Assertion::sequence", "assertions::validate_stride", "TransitionConstraints::new", "TransitionConstraints::combine_evaluations", "AirContext::set_num_transition_exemptions", "ConstraintDivisor::from_transition", "BoundaryConstraints::new", "boundary::prepare_assertions", "boundary::group_constraints", "BoundaryConstraintGroup::divisor", "BoundaryConstraint::evaluate_at", "ConstraintDivisor::from_assertion", "ConstraintDivisor::evaluate_at"],
            "Assertion::periodic / sequence accept exactly the documented shapes (stride a power of two >= 2, first step strictly below the stride, a non-empty power-of-two number of values) and refuse everything else; TransitionConstraints::new gives the first num_main composition coefficients to the main and the following num_aux to the auxiliary constraints and combine_evaluations is their random linear combination over the transition divisor (1..4 main x 0..4 auxiliary constraints); assertion lists in which two assertions constrain the same cell are refused in every listing order; otherwise the constraint groups' divisors vanish on exactly the asserted steps of each of their constraints and each constraint compares the cell with the asserted value (value polynomial incl. offset); a number of transition exemptions is accepted exactly when it is in 1..=len/2+1 and the quotient still fits the constraint evaluation domain, and the transition divisor vanishes on exactly the non-exempt steps",
            "NATIVE EXECUTION, not a proof: trace lengths 8, 16, 32 x 2 columns x every single / periodic / sequence assertion: all single assertions, all ordered pairs, 3000 seeded triples per length; exemptions: trace lengths 8..64 x every count 0..=len x constraint degrees 1..9 alone, in pairs and with periodic cycles; multi-segment traces: lengths 8, 16 x main / auxiliary widths 1..=3 x every column below main + aux x 6 assertion shapes x main / auxiliary list (an assertion is accepted exactly when its column exists in its own segment, and is enforced on exactly its cells there); 128-bit field")


verus_unit("friverifv", "friverifv", ["C05", "C04", "C15"], [
    "FriOptions::num_fri_layers (every domain size, folding factor >= 2, blowup and remainder degree: the number of floor-divisions by the folding factor until the domain is at most (remainder_max_degree + 1) * blowup; terminates; at most 64)",
    "FriVerifier::new (every number of layer commitments, folding factor and degree bound, abstract channel / coin / field: a commitment list of the wrong length is refused before the coin is touched; otherwise the coin sees exactly reseed(c_0), draw, reseed(c_1), draw, ... and the challenge stored for layer i is the one drawn after c_i; DegreeTruncation exactly at the first non-final depth whose running degree bound plus one is not a multiple of the folding factor; the verifier keeps the commitments, the degree bound and the domain size it was given)"])
